#!/usr/bin/env python3
"""Regenerates /verif/MANIFEST.json from the table below (kept in one place so it is always schema-valid)."""
import json
import os

ROOT = os.path.dirname(os.path.dirname(os.path.abspath(__file__)))
COMMON_NOTE = ('Trusted: the JAX tracer (the jaxpr is the program that runs), SX primitive semantics (validated against real JAX at '
               'random points every run), z3 5.1.0 (cvc5 1.4.0 second opinion on a sample). Floats are modelled as mathematical reals; '
               'round-off, overflow and XLA re-association are outside the claim. ')

CHECKS = {
    'C09': dict(
        text='Every algebraic law is decided for ALL real inputs (unit quaternions / unit vectors by rational parametrisation, '
             'denominators cleared) as a polynomial identity by z3/nlsat on the terms obtained by symbolically executing the real '
             'brax.math / brax.base functions; bounded only by the list of laws and by real-for-float arithmetic.',
        note='Laws are stated in homogeneous form where possible; from_to is covered on (6 fixed frames x all angles) + (5 fixed angles x all '
             'frames) + the antipodal branch with the real PRNG draw; quat_mul_ang is unused by brax and has no law.',
        technique='symbolic execution of jaxprs to z3 real terms; polynomial identities by nlsat (QF_NRA)', design='C09'),
    'C11': dict(
        text='actuator.to_tau is symbolically executed on systems loaded by the real mjcf.loads from generated models and proved equal to '
             'MuJoCo\'s actuator semantics (term spec built from the mujoco.MjModel fields, validated against real qfrc_actuator every run) '
             'for ALL real ctrl, q, qd (QF_LRA); monotonicity / saturation by two-copy queries; and for all parameter values on small models (QF_NRA).',
        note='Bounded by the generated models (14 quick / 40 thorough, 0-10 actuators, several per joint, free roots shifting q/qd indices).',
        technique='symbolic execution of jaxprs to z3 terms; QF_LRA / QF_NRA equivalence with a reference spec; two-copy (2-safety) queries',
        design='C11'),
    'C18': dict(
        text='Inductive step from an arbitrary valid accumulator state (n, S1, S2 symbolic): one running_statistics.update with symbolic batch '
             'and weights yields exactly the accumulator of the concatenated data (rational identity), std is clip(sqrt(max(var,0))) '
             '(two solver lemmas, or the full query), integer weights == repetition, any split of a batch == one update; '
             'normalize/denormalize round trip. Covers histories of any length by induction.',
        note='Bounds: features 1-3, batch shapes up to 3x2 / 4, weights {0..4}^k k<=3 for the repetition law; pmap/psum path outside. '
             'Invariant assumed on the pre-state: n>0 and non-negative variance (proved preserved).',
        technique='symbolic execution of jaxprs to z3 real terms; inductive-step rational identities (QF_NRA) with denominator clearing',
        design='C18'),
    'C19': dict(
        text='compute_gae is symbolically executed (reverse scan unrolled) and proved equal to the defining sums for ALL real rewards, values, '
             'bootstrap, lambda, discount and with the masks as arbitrary reals, for every T<=6 (quick) / T<=12 (thorough) and B<=3/4; '
             'gradient terms of jax.grad are identically zero; columns independent (two-copy).',
        note='Bounded by T and B only.',
        technique='symbolic execution of jaxprs to z3 real terms; polynomial identities by nlsat', design='C19'),
}

CHECKS.update({
    'C15': dict(
        text='training.wrap (Vmap+Episode+AutoReset), EvalWrapper, acting.generate_unroll/actor_step and the Evaluator\'s traced unroll are symbolically '
             'executed around a scripted environment whose termination flags (Bool) and rewards (Real) are SYMBOLIC schedules, so each query covers all '
             'schedules of the unrolled length at once; outputs are proved equal to a reference automaton (QF_LRA+Bool), per member and wrapped step; '
             'member independence by a two-copy query.',
        note='Bounds: episode_length 1-3 x action_repeat 1-2 (quick), 1-6 x 1-3 (thorough), batch 2, history 3*episode_length raw steps. brax.v1.envs is '
             'replaced by an empty stub module (not importable on the pinned jax; acting.py uses it for type aliases only).',
        technique='symbolic execution of jaxprs with symbolic Boolean schedules; equivalence with a reference automaton (QF_LRA)', design='C15'),
    'C17': dict(
        text='Inductive step from an arbitrary valid queue state: one insert_internal / sample_internal with symbolic records and symbolic sample cursor '
             '(insert cursor enumerated 0..capacity so moduli are constants) is proved equal to an abstract bounded FIFO, and the representation invariant is '
             'proved preserved (QF_LIA); host-side guards are executed by the forking executor FX on a symbolic _size and tied to the device state by the '
             'invariant _size == held; uniform queue under a randint contract stub; sharded wrappers: routing/interleaving of symbolic records.',
        note='Bounds: capacity 1-4 (quick) / 1-6 (thorough), insert batch 1..capacity, sample batch 1..min(4,capacity); shards 2-4 with concrete cursors. '
             'jax.random.randint is stubbed by its contract. int32 overflow outside.',
        technique='symbolic execution of jaxprs (symbolic-index dynamic_slice/update/gather as If-chains) + path-forking symbolic execution of Python guards; QF_LIA',
        design='C17'),
    'C20': dict(
        text='NormalTanhDistribution / TanhBijector / PPO make_inference_fn are symbolically executed with exp/log/log1p/tanh/atanh as uninterpreted '
             'applications under sound real axioms; log_prob, entropy, reparameterised sampling, mode, range, scale floor and the inference function\'s '
             'outputs are proved for all real parameters; finiteness for arbitrarily large inputs is decided under a saturation abstraction (exp may be 0, '
             'tanh may be +-1): every log / log1p / atanh argument and denominator stays inside its domain.',
        note='The log-det-Jacobian is checked structurally against the stable closed form plus solver-decided two-sided anchors; its equality with log(1-tanh^2) '
             'is a paper fact. jax.random.normal is a stub (fresh epsilon per key). Event sizes 1-2 (quick) / 1-3 (thorough), 0-1 batch axes.',
        technique='symbolic execution of jaxprs; uninterpreted transcendental applications with sound axioms; QF_NRA; saturation abstraction for finiteness',
        design='C20'),
})

CHECKS.update({
    'C13': dict(
        text='The real mjcf.fuse_bodies (with _offset, _transform_do, rotate_np, quat_mul_np) is executed by the forking executor FX on MJCF text whose '
             'pos / quat / fromto values are symbolic (reserved float tokens carried through the %f / np.fromstring round trips); for every feasible path the '
             'world pose of every named geom, site and jointed body (end points for fromto geoms) in the fused document is proved equal to the original by '
             'polynomial identities over all positions and unit quaternions.',
        note='Engine fx. Oracle: MJCF frame composition, validated against real mujoco on concrete instances every run. Bounds: nesting depth <=2 (quick) / 3 '
             '(thorough) under the world and under a jointed body, 4 attribute modes per level, 4 child kinds per level; Tier A quaternions for one level, '
             'Tier B (exact rational instances) deeper. The 6-decimal %f rounding is abstracted. Masses/inertias only through the concrete MuJoCo replay.',
        technique='path-forking symbolic execution of the Python loader code over z3 terms; polynomial identities (QF_NRA)', design='C13'),
    'C14': dict(
        text='The real mjcf.validate_model is executed by FX on a stand-in MjModel with enumerated discrete structure and SYMBOLIC continuous fields; for every '
             'feasible accepting path the solver proves that no unsupported feature (declarative predicate of the property over the same fields) is present; '
             'each native pipeline.init is shown to call the validator. The load-consistency sentence is NOT solver-decided: it is executed concretely on '
             'generator models (sizes, link types, parent order, actuator ids, init pose vs the mujoco.MjModel) and reported separately.',
        note='Engine fx. Bounds: <=3 joints (all types/stack shapes listed), <=2 actuators, <=3 geoms. Partial claim: second sentence only sampled concretely.',
        technique='path-forking symbolic execution of the Python validator over z3 terms; per-path QF_LRA implication against a declarative predicate',
        design='C14'),
})

CHECKS.update({
    'C01': dict(
        text='kinematics.forward (with scan.tree / scan.link_types) is symbolically executed on systems loaded by the real mjcf.loads from generator forests '
             '(1-6 links, every hinge/slide stack word of length 1-3, non-orthogonal axes, offsets, rotated bodies, several roots) and proved equal to MuJoCo\'s '
             'kinematics semantics (term spec validated against real mj_forward / mj_objectVelocity every run) for ALL root positions, slide coordinates and '
             'velocities; plus a plumbing lemma: scan.tree / scan.link_types route symbolic payloads correctly on ALL forests / type strings up to a bound.',
        note='Tier B: hinge half-angle sin/cos at exact rational points (|q|<=2) and exact rational unit root quaternions; kinematic parameters are the exact '
             'rationals the loaded System rounds (validated each run). Velocities of stacked/offset joints: KNOWN-FINDING (upstream TODO). '
             'Bounds: 14 (quick) / 40 (thorough) models; plumbing forests <=5/6 links, type strings <=4/5 links.',
        technique='symbolic execution of jaxprs to z3 real terms; QF_NRA equivalence with a reference spec; exhaustive structural plumbing lemma', design='C01'),
    'C08': dict(
        text='forward -> world_to_joint -> inverse is symbolically executed with hinge angles SYMBOLIC (t = tan(q/4) rational parametrisation on the chart |q|<=1.2), '
             'slides / root positions / velocities symbolic; the atan2 / acos applications of the Euler extraction are uninterpreted with sound identification axioms '
             'instantiated at the input angles, square roots folded by solver lemmas; the solver proves q\' == q and qd\' == qd (claimed class).',
        note='Bounds: orthogonal stacks h, s, hh, ss, sh (both handedness for hh) with and without a free root (quick); hhh, sss, ssh extended in thorough. '
             'Velocity round trip of prismatic/stacked joints: KNOWN-FINDING. Replay refines an abstract witness over a grid of the chart.',
        technique='symbolic execution of jaxprs; rational parametrisation + denominator clearing; uninterpreted transcendental applications with identification axioms; nlsat',
        design='C08'),
})

CHECKS.update({
    'C10': dict(
        text='contact.get (with the mjx primitive collision functions it calls) is symbolically executed on plane + free-body scenes loaded by the real mjcf.loads. '
             'Full mode (ALL link positions and per-geom elasticities symbolic, orientations exact rational unit quaternions): link attribution, elasticity mean, '
             'plane-sphere and plane-capsule closed forms; loader plumbing of per-geom elasticities (tuple and numeric-vector forms) into sys.elasticity. Slice mode (one body on a symbolic line through an exact rational configuration): sphere-sphere closed form '
             '(core), sphere-capsule witness-on-segment + optimality (extended), capsule-capsule informational.',
        note='Bounds: 4 (quick) / 12 (thorough) scenes, 1-2 lines per scene. Distance cases use optimality conditions rather than a second algorithm; sphere-capsule '
             'optimality holds up to 1e-9 m^2 because upstream mjx regularises the projection by 1e-6. Boxes / meshes / convex pairs outside.',
        technique='symbolic execution of jaxprs (brax + mjx) to z3 real terms; QF_NRA with sqrt as constrained variables; solver-folded guards', design='C10'),
})

CHECKS.update({
    'C02': dict(
        text='The generalized pipeline\'s dynamics terms (dynamics.transform_com + mass.matrix, dynamics.inverse, dynamics._passive, dynamics.forward with actuator.to_tau) are '
             'symbolically executed on systems loaded by the real mjcf.loads and proved equal to a first-principles mechanics reference (time-jets of every body\'s centre of mass and '
             'orientation -> mass matrix, virtual-power bias force incl. gravity, passive force; NOT Featherstone\'s algorithms; validated against real mujoco mj_mulM / qfrc_bias / '
             'qfrc_passive every run) for ALL velocities, controls, root positions and slide coordinates; symmetry and positive definiteness of the mass matrix; and '
             'integrator.integrate is proved to be MuJoCo\'s semi-implicit Euler step with implicit damping (velocity equation multiplied back through the exact solve, '
             'q\' = q + dt qd\', free-joint quaternion update with local angular velocity).',
        note='Tier B: hinge half-angles at exact rational points, exact rational root orientations. Models: free root + s / sh, world hs, world h then s on rotated bodies, single free body '
             '(quick); more stacks in thorough. jax.scipy.linalg.solve is interpreted as the exact solution. Contacts and limits are C06.',
        technique='symbolic execution of jaxprs to z3 real terms; QF_NRA equivalence with a first-principles mechanics reference built from time-jets', design='C02 and section 6.2'),
    'C03': dict(
        text='PARTIAL. (1) brax\'s own derivative rules (custom JVPs of safe_arccos / safe_arcsin) are compared, on the gradient jaxprs JAX produces, with JAX\'s built-in rules for '
             'all arguments in (-1,1), at function level and through kinematics of a 2-hinge stack. (2) Finiteness: the gradient jaxpr of a loss on one pipeline step is '
             'interpreted on symbolic lines through the singular inputs (rest, zero angular velocity, resting contact); every denominator met must be non-zero on the line; a '
             'vanishing one is replayed with the real jax.grad and reported only if non-finite. Additionally, AT each singular input itself (line parameter pinned, ground query) all denominators '
             'are non-zero (core for spring and positional). (3) Unit level: the Jacobian of the generalized free-joint position update w.r.t. angular velocity at zero spin equals dt/2 q (x) (0, e_i).',
        note='Whole-line obligations: spring core, positional / generalized extended. Derivatives produced purely by JAX rules are trusted: a finite-but-wrong gradient of a JAX-differentiated helper at a '
             'singular input is outside the claim. Steps 2-5 outside.',
        technique='symbolic execution of jax.grad jaxprs; differential oracle between derivative rules; definedness obligations (QF_NRA) on symbolic lines', design='C03 and section 6.2'),
    'C04': dict(
        text='Inductive step: spring / positional step with EVERY State array field an independent symbolic input (masses = model constants), control symbolic, and (two-body '
             'scenes) arbitrary symbolic contact geometry: total linear momentum changes by exactly (sum m) g dt. Decided on the additive skeleton of the terms (large non-linear '
             'chunks abstracted to fresh variables: unsat is sound); models carry non-zero global angular damping. Rest clause (spring, positional) with Tier B configurations strictly inside '
             'ASYMMETRIC ranges chosen around them, incl. a left-handed 3-hinge stack (positional 3-dof: extended + witness search); the generalized rest clause is not decided.',
        note='A sat answer of the abstraction is confirmed by a witness search on the real code before it is reported. contact.get is stubbed in the two-body scenes only.',
        technique='symbolic execution of jaxprs; skeleton abstraction + QF_NRA; inductive step over arbitrary states', design='C04'),
    'C05': dict(
        text='Rigid-transform equivariance, sibling-order permutation and disconnected components are proved on the traced init+step of the spring pipeline (core) for all '
             'translations, root positions and all velocity states on a symbolic line through exact rational points (rotations exact rational, non-axis-aligned included); '
             'positional: sibling order decided on the additive skeleton for the links below the torso (core), torso and rigid transform extended with a concrete witness search on the real code; '
             'generalized only in the thorough tier.',
        note='Bounds: free root + h / hh (transform), torso with 2-0-1 children (sibling order), two 2-link models (components), one step.',
        technique='symbolic execution of jaxprs; polynomial identities (QF_NRA) between two symbolic runs', design='C05 and section 6.2'),
    'C06': dict(
        text='PARTIAL (single steps). Inert contacts / limits: two XML variants through the real loader, init+step compared output by output (spring: decided, terms identical; '
             'positional: extended + concrete differential side-check). Push-only and one-impact restitution: free sphere penetrating the ground by symbolic depth with symbolic normal '
             'speed and elasticity, at a symbolic horizontal position: never pulled in; under gravity a resting sphere 2-20 mm inside the ground moves outward; rebound speed e|v| within the pipeline '
             'margin (spring, positional). Generalized, unit level: constraint.jac_limit returns zero limit rows for EVERY q strictly inside the ranges (q, qd fully symbolic).',
        note='Outside: 3 s resting / rebound histories, boxes and capsules for push-only, unit-norm of rotations (not decided by solver).',
        technique='symbolic execution of jaxprs; syntactic + skeleton comparison of two runs; QF_NRA on the sphere scene', design='C06 and section 6.2'),
    'C07': dict(
        text='PARTIAL. vmap(f)(batch)[i] == f(batch[i]) for f = init+step of spring / positional (with and without collision geometry) on symbolic members; training wrappers: member 0 '
             'is independent of member 1\'s symbolic termination schedule / rewards across episode boundaries (two-copy); DomainRandomizationVmapWrapper vs a solo environment built '
             'from the member\'s system.',
        note='"jit agrees with eager" is outside (XLA + floating point). Batch 2 (quick) / 3 (thorough).',
        technique='symbolic execution of vmapped and single jaxprs; term identity / skeleton abstraction; two-copy (2-safety) queries', design='C07'),
})

# thorough tiers that were run end to end in this sandbox (the others are registered quick-only)
THOROUGH_OK = {'C01', 'C02', 'C07', 'C09', 'C10', 'C11', 'C12', 'C14', 'C15', 'C17', 'C18', 'C19', 'C20'}

CHECKS.update({
    'C12': dict(
        text='Decided in its first-order form: for conservative generator models the acceleration state.qdd that the REAL generalized.pipeline.step uses (through the exact solve) '
             'makes the first-order term of the drift vanish identically:  qd . (M_ref qdd + c_ref - passive_ref) == 0  (energy, with the first-principles reference mechanics '
             'validated against mujoco every run) and  sum_b m_b a_b == (sum m) g  (linear momentum, free-floating models), for ALL velocities, root positions and slide coordinates; '
             'and the step increments qd by dt*qdd. A non-vanishing first-order term would make the drift over a fixed horizon O(1) (not halving with dt).',
        note='The bridge "first-order term vanishes => O(dt) drift over a fixed horizon" is textbook consistency, stated, not checked; the 0.05-0.1 s horizon itself and second-order terms are '
             'outside. Position-update consistency of the integrator (incl. the free-joint quaternion) is decided in C02. Tier B configurations; models: pendulum with a slide on a rotated body, '
             'double pendulum, free body, free root + hinge, two disconnected trees.',
        technique='symbolic execution of jaxprs; QF_NRA identity against a first-principles mechanics reference (time-jets)', design='C12'),
})

NOT_APPLICABLE = {
    'C16': 'whole-program finiteness of 11 environments over 200-1000-step histories with contact switching and float overflow: '
           'outside what a bounded real-arithmetic encoding can decide (DESIGN.md section 3)',
}
PENDING = []


def main():
  checks = []
  for pid in sorted(CHECKS):
    c = CHECKS[pid]
    checks.append({
        'property_id': pid,
        'quick_cmd': './check %s --tier quick' % pid,
        **({'thorough_cmd': './check %s --tier thorough' % pid} if pid in THOROUGH_OK else {}),
        'evidence_file': 'evidence/%s.json' % pid,
        'replay_cmd_template': './check %s --tier quick' % pid,
        'engine': 'fx' if pid in ('C13', 'C14') else 'sx',
        'level_claimed': {'category': 'model_checking', 'text': c['text'], 'design_ref': 'DESIGN.md section 2, ' + c['design']},
        'level_note': COMMON_NOTE + c['note'],
        'technique': c['technique'],
    })
  na = [{'property_id': k, 'reason': v} for k, v in sorted(NOT_APPLICABLE.items())]
  na += [{'property_id': p, 'reason': 'check not built yet (work in progress in this session; see DESIGN.md for the plan)'}
         for p in PENDING if p not in CHECKS and p not in NOT_APPLICABLE]
  m = {
      'version': 1,
      'setup_cmd': './setup.sh',
      'hooks': {'guard': 'GOOGLE_BRAX_VERIF', 'enable': 'no hooks are needed: every observation point is a public function or State field; '
                'the guard variable is exported by ./check but read by nothing in /repo',
                'baseline_off_cmd': 'cd /repo && /venv/bin/python -m pytest -ra -q -p no:cacheprovider --timeout=900 --continue-on-collection-errors',
                'source_commits': [], 'add_only': True},
      'engines': [
          {'name': 'sx', 'path': 'sx/', 'serves_properties': sorted(CHECKS), 'kind_free_text':
           'symbolic executor for jaxprs of the real brax functions over z3 terms + SMT solver pool (z3, cvc5 cross-check)'},
          {'name': 'fx', 'path': 'fx/', 'serves_properties': ['C13', 'C14', 'C17'], 'kind_free_text': 'forking symbolic executor for plain Python/numpy code (mjcf loader)'},
      ],
      'checks': checks,
      'not_applicable': sorted(na, key=lambda x: x['property_id']),
      'notes': 'Solver-based checking of the real code: see DESIGN.md. Exit 3 = harness error / inconclusive (never reported as success).',
  }
  with open(os.path.join(ROOT, 'MANIFEST.json'), 'w') as f:
    json.dump(m, f, indent=1)
  try:
    import jsonschema
    jsonschema.validate(m, json.load(open('/root/.vp/MANIFEST.schema.json')))
    print('MANIFEST.json valid: %d checks, %d not_applicable' % (len(checks), len(na)))
  except ImportError:
    print('written (jsonschema not available)')


if __name__ == '__main__':
  main()
