#!/usr/bin/env python3
"""Confirm a seeded defect in a scratch worktree and store it under /verif/seeded/<name>/.
usage: confirm_seed.py <PROPERTY> <k> <src_dir> "<needs>" [test files...]
Runs: demo on clean tree (must exit 0), git apply patch, demo (must exit !=0), the given existing test files (must pass), cleanup."""
import json, os, shutil, subprocess, sys, time
pid, k, src, needs = sys.argv[1:5]
tests = sys.argv[5:]
name = '%s-%s' % (pid, k)
wt = '/tmp/wt/confirm-%s' % name
env = dict(os.environ, JAX_PLATFORMS='cpu', PYTHONPATH=wt)
def sh(cmd, **kw):
  return subprocess.run(cmd, shell=True, capture_output=True, text=True, env=env, **kw)
subprocess.run('git -C /repo worktree remove --force %s 2>/dev/null; git -C /repo worktree add -q --detach %s HEAD' % (wt, wt), shell=True)
out = {'property': pid, 'name': name, 'needs_to_manifest': needs, 'ran': []}
try:
  patch, demo = os.path.join(src, 'patch%s.diff' % k), os.path.join(src, 'demo%s.py' % k)
  r0 = sh('cd %s && /venv/bin/python %s' % (wt, demo)); out['ran'].append({'cmd': 'demo on clean tree', 'rc': r0.returncode})
  ra = sh('git -C %s apply %s' % (wt, patch)); out['ran'].append({'cmd': 'git apply patch.diff', 'rc': ra.returncode})
  r1 = sh('cd %s && /venv/bin/python %s' % (wt, demo)); out['ran'].append({'cmd': 'demo with patch', 'rc': r1.returncode, 'tail': r1.stdout[-600:]})
  ok = r0.returncode == 0 and ra.returncode == 0 and r1.returncode != 0
  if tests:
    rt = sh('cd %s && /venv/bin/python -m pytest -q -rf -p no:cacheprovider %s' % (wt, ' '.join(tests)))
    stable = set(json.load(open('/root/.vp/BASELINE.json'))['stable_pass'])
    failed = []
    for ln in rt.stdout.splitlines():
      if ln.startswith('FAILED '):
        t = ln.split()[1]
        f_, rest = t.split('::', 1)
        failed.append(f_[:-3].replace('/', '.') + '.' + rest)
    bad = [t for t in failed if t in stable]
    out['ran'].append({'cmd': 'pytest ' + ' '.join(tests) + ' (with patch)', 'rc': rt.returncode, 'tail': rt.stdout[-300:], 'failed_outside_pinned_suite': [t for t in failed if t not in stable], 'failed_pinned': bad})
    out['existing_tests_pass_with_patch'] = not bad and ('passed' in rt.stdout)
  out['confirmed'] = ok
  dst = '/verif/seeded/%s' % name
  os.makedirs(dst, exist_ok=True)
  shutil.copy(patch, os.path.join(dst, 'patch.diff'))
  shutil.copy(demo, os.path.join(dst, 'demo.py'))
  notes = os.path.join(src, 'notes%s.md' % k)
  if os.path.exists(notes):
    shutil.copy(notes, os.path.join(dst, 'notes.md'))
  json.dump(out, open(os.path.join(dst, 'meta.json'), 'w'), indent=1)
  print(name, 'confirmed' if ok else 'NOT CONFIRMED', [(x['cmd'][:30], x['rc']) for x in out['ran']])
finally:
  subprocess.run('git -C /repo worktree remove --force %s' % wt, shell=True)
