#!/bin/sh
# Build the overlay venv /verif/.venv (offline): /venv's python + z3-solver, cvc5, crosshair-tool
# from /opt/veriftools/wheels, with /venv's site-packages and /repo visible through a .pth file.
set -e
cd "$(dirname "$0")"
V=.venv
if [ -x $V/bin/python ] && $V/bin/python -c "import z3, jax, brax, jsonschema" 2>/dev/null; then
  exit 0
fi
rm -rf $V
/venv/bin/python -m venv $V
SP=$($V/bin/python -c "import sysconfig; print(sysconfig.get_paths()['purelib'])")
printf '/venv/lib/python3.12/site-packages\n/repo\n' > "$SP/verif_overlay.pth"
export PIP_NO_INDEX=1 PIP_DISABLE_PIP_VERSION_CHECK=1
$V/bin/python -m pip install -q --no-index --no-deps --find-links /opt/veriftools/wheels z3-solver cvc5 >/dev/null
# crosshair (secondary engine for C17's pure-int guard logic) and jsonschema (evidence self-validation); best effort
$V/bin/python -m pip install -q --no-index --find-links /opt/veriftools/wheels crosshair-tool jsonschema >/dev/null 2>&1 || true
$V/bin/python -c "import z3, jax, brax; print('overlay ok', z3.get_version_string(), jax.__version__)"
