"""Shared check driver: obligations -> solver pool -> replay -> known findings -> evidence + exit status.

Exit status: 0 all core obligations discharged (known findings printed as KNOWN-FINDING lines);
1 a reproduced violation not listed in known_findings.json (VIOLATION line printed);
3 harness trouble / inconclusive core obligation (never reported as success).
"""
import hashlib
import json
import os
import sys
import time
import traceback

ROOT = os.path.dirname(os.path.dirname(os.path.abspath(__file__)))
sys.path.insert(0, ROOT)
REPO = os.environ.get('VERIF_REPO', '/repo')   # the tree under analysis (seed tests point this at a scratch worktree)
OUT = os.environ.get('VERIF_OUT', ROOT)        # where evidence/ and replays/ are written
if REPO not in sys.path:
  sys.path.insert(0, REPO)

from sx import solve  # noqa: E402

EXIT_OK, EXIT_VIOLATION, EXIT_HARNESS = 0, 1, 3


def load_known():
  p = os.path.join(ROOT, 'known_findings.json')
  if not os.path.exists(p):
    return {'findings': [], 'fixed': []}
  return json.load(open(p))


class Check:
  def __init__(self, pid, tier, seed, level='model_checking'):
    self.pid, self.tier, self.seed, self.level = pid, tier, seed, level
    self.t0 = time.time()
    self.obs = []
    self._ext_cache = {}
    self.functions = {}      # name -> jaxpr equation count (or source lines for FX)
    self.bounds = {}
    self.assumptions = []
    self.stubs = set()
    self.notes = []
    self.samples = []
    self.validated = 0       # translator-validation points (SX vs real JAX) / spec-vs-oracle points
    self.oracle_validated = 0
    self.extra = {}
    self.harness_errors = []
    self.replayers = {}      # ob.name prefix -> callable(ob) -> (reproduced, info)
    self.known = load_known()
    self.cross = []

  # ---- registration
  def traced(self, name, cj_or_n):
    from sx import core
    n = cj_or_n if isinstance(cj_or_n, int) else core.n_eqns(cj_or_n.jaxpr)
    self.functions[name] = max(self.functions.get(name, 0), n)

  def add(self, ob):
    self.obs.append(ob)
    return ob

  def log(self, *a):
    print('[%s %6.1fs]' % (self.pid, time.time() - self.t0), *a, flush=True)

  def harness_error(self, msg):
    self.harness_errors.append(msg)
    self.log('HARNESS-ERROR', msg)

  # ---- solving
  def discharge(self, workers=None):
    def lg(ob):
      if ob.status != ob.expect or ob.time > 5:
        self.log('  %-60s %-8s %6.1fs (expect %s)%s' % (ob.name[:60], ob.status, ob.time, ob.expect,
                                                       '' if ob.core else ' [extended]'))
    pend = [o for o in self.obs if o.status is None]
    t = time.time()
    solve.discharge(pend, workers=workers, log=lg)
    self.log('discharged %d obligations in %.1fs' % (len(pend), time.time() - t))

  def cross_check(self, n=3, timeout=20):
    """second solver (cvc5) on a sample of discharged obligations; a definite disagreement is a harness error"""
    cands = [o for o in self.obs if o.status in ('sat', 'unsat') and not o.trivial and o.smt2 and len(o.smt2) < 400000]
    cands.sort(key=lambda o: hashlib.md5((o.name + str(self.seed)).encode()).hexdigest())
    for o in cands[:n]:
      r = solve.cvc5_check(o.smt2, timeout)
      self.cross.append({'obligation': o.name, 'z3': o.status, 'cvc5': r})
      if r in ('sat', 'unsat') and r != o.status:
        self.harness_error('solver disagreement on %s: z3=%s cvc5=%s' % (o.name, o.status, r))

  # ---- verdict
  def _known(self, key):
    for f in self.known.get('findings', []):
      if f.get('property') == self.pid and f.get('key') == key:
        return f
    return None

  def finish(self):
    violations, known_hits, inconclusive = [], [], []
    for o in self.obs:
      if o.status is None:
        o.status = 'skipped'
      if o.kind == 'lemma':
        continue   # lemmas only serve to discharge another obligation; their failure is handled by the check itself
      if o.expect == 'sat':
        # vacuity / mutation twin: must be satisfiable
        if o.status != 'sat' and o.core:
          self.harness_error('twin %s expected sat, got %s (vacuous harness or blind oracle)' % (o.name, o.status))
        continue
      if o.status == 'unsat':
        continue
      if o.status == 'sat':
        rep = None
        for pref, fn in self.replayers.items():
          if o.name.startswith(pref):
            rep = fn
            break
        reproduced, info = (None, {})
        if rep is not None:
          try:
            reproduced, info = rep(o)
          except Exception as ex:
            traceback.print_exc()
            self.harness_error('replay of %s crashed: %r' % (o.name, ex))
            continue
        else:
          self.harness_error('no replayer for sat obligation %s' % o.name)
          continue
        if not reproduced:
          if o.core:
            inconclusive.append(o)
            self.log('counterexample of %s did not reproduce on the real code -> inconclusive' % o.name, info.get('why', ''))
          continue
        key = o.meta.get('finding_key') or o.name
        kf = self._known(key)
        if kf is not None:
          known_hits.append((key, kf))
          continue
        os.makedirs(os.path.join(OUT, 'replays'), exist_ok=True)
        path = os.path.join(OUT, 'replays', '%s-%s.json' % (self.pid, hashlib.md5(o.name.encode()).hexdigest()[:10]))
        with open(path, 'w') as f:
          json.dump({'property': self.pid, 'obligation': o.name, 'finding_key': key, 'model': o.model, 'replay': info},
                    f, indent=1, default=str)
        violations.append((o, path))
      else:
        if not o.core and o.meta.get('extended_witness'):
          # undecided EXTENDED obligation that opted in: the solver could not decide it (no claim is made), but a concrete witness search on the
          # real code still runs, once per distinct (replayer, tag); a reproduced violation is reported, nothing else changes the verdict
          rep = None
          for pref, fn in self.replayers.items():
            if o.name.startswith(pref):
              rep = (pref, fn)
              break
          if rep is not None:
            ckey = (rep[0], str(o.meta.get('extended_witness')))
            if ckey not in self._ext_cache:
              try:
                o.model = o.model or {}
                self._ext_cache[ckey] = rep[1](o)
              except Exception as ex:
                self._ext_cache[ckey] = (False, {'why': 'witness search crashed: %r' % (ex,)})
              self.extra['extended_witness_searches'] = self.extra.get('extended_witness_searches', 0) + 1
              reproduced, info = self._ext_cache[ckey]
              if reproduced and info.get('note', '').find('solver model') < 0:
                key = o.meta.get('finding_key') or o.name
                kf = self._known(key)
                if kf is not None:
                  known_hits.append((key, kf))
                  continue
                os.makedirs(os.path.join(OUT, 'replays'), exist_ok=True)
                path = os.path.join(OUT, 'replays', '%s-%s.json' % (self.pid, hashlib.md5(o.name.encode()).hexdigest()[:10]))
                with open(path, 'w') as f:
                  json.dump({'property': self.pid, 'obligation': o.name, 'solver_status': o.status, 'replay': info,
                             'note': 'extended obligation the solver left undecided; the violation was found by the concrete witness search on the real code'}, f, indent=1, default=str)
                violations.append((o, path))
          continue
        if o.core:
          # undecided core obligation: look for a concrete witness on the real code (replayer with no model); a reproduced violation is reported
          rep = None
          for pref, fn in self.replayers.items():
            if o.name.startswith(pref):
              rep = fn
              break
          reproduced, info = (False, {})
          if rep is not None and o.meta.get('witness_search', True):
            try:
              o.model = o.model or {}
              reproduced, info = rep(o)
            except Exception as ex:
              reproduced, info = False, {'why': 'witness search crashed: %r' % (ex,)}
          if reproduced and info.get('note', '').find('solver model') < 0:
            key = o.meta.get('finding_key') or o.name
            kf = self._known(key)
            if kf is not None:
              known_hits.append((key, kf))
              continue
            os.makedirs(os.path.join(OUT, 'replays'), exist_ok=True)
            path = os.path.join(OUT, 'replays', '%s-%s.json' % (self.pid, hashlib.md5(o.name.encode()).hexdigest()[:10]))
            with open(path, 'w') as f:
              json.dump({'property': self.pid, 'obligation': o.name, 'solver_status': o.status, 'replay': info,
                         'note': 'the solver left this obligation undecided; the violation was found by the concrete witness search on the real code'}, f, indent=1, default=str)
            violations.append((o, path))
          else:
            inconclusive.append(o)
    seen = set()
    for key, kf in known_hits:
      if key in seen:
        continue
      seen.add(key)
      print('KNOWN-FINDING: property=%s %s (%s)' % (self.pid, key, kf.get('what', '')), flush=True)
    for o, path in violations:
      print('VIOLATION property=%s replay=%s' % (self.pid, path), flush=True)
      self.log('  violated obligation:', o.name)
    for o in inconclusive:
      self.log('INCONCLUSIVE core obligation %s: %s' % (o.name, o.status))
    self.write_evidence(len(violations), known_hits, inconclusive)
    if violations:
      return EXIT_VIOLATION
    if inconclusive or self.harness_errors:
      return EXIT_HARNESS
    return EXIT_OK

  def write_evidence(self, nviol, known_hits, inconclusive):
    goals = [o for o in self.obs if o.expect == 'unsat' and o.kind != 'lemma']
    lem = [o for o in self.obs if o.kind == 'lemma']
    twins = [o for o in self.obs if o.expect == 'sat']
    sent = [o for o in self.obs if not o.trivial and o.status not in (None, 'skipped')]
    distinct = len({hashlib.md5((o.smt2 or o.name).encode()).hexdigest() for o in sent if o.status in ('sat', 'unsat')})
    ext = [o for o in goals if not o.core]
    samples = list(self.samples)
    big = [o for o in goals if o.smt2 and not o.trivial and o.status == 'unsat']
    big.sort(key=lambda o: len(o.smt2))
    if big:
      o = big[len(big) // 2]
      samples.append({'obligation': o.name, 'status': o.status, 'solver_s': round(o.time, 3),
                      'smtlib2_head': o.smt2[:1500], 'smtlib2_chars': len(o.smt2)})
    for o in twins[:2]:
      samples.append({'twin': o.name, 'status': o.status, 'model_excerpt': dict(list((o.model or {}).items())[:8])})
    if not samples:
      samples.append({'note': 'no obligations'})
    cov = {
        'evaluations': len(sent),
        'distinct_nontrivial': distinct,
        'rule': 'one evaluation = one SMT query (obligation or vacuity/mutation twin) sent to z3; distinct = distinct '
                'SMT-LIB texts with a definite answer; obligations discharged syntactically (identical terms on both '
                'sides) are counted separately under trivially_discharged and are not in evaluations',
        'samples': samples,
        'obligations': len(goals),
        'discharged': sum(1 for o in goals if o.status == 'unsat'),
        'trivially_discharged': sum(1 for o in goals if o.trivial),
        'core_obligations': sum(1 for o in goals if o.core),
        'extended_obligations': len(ext),
        'extended_inconclusive': sum(1 for o in ext if o.status not in ('sat', 'unsat')),
        'sat_known_findings': sorted({k for k, _ in known_hits}),
        'inconclusive_core': [o.name for o in inconclusive],
        'lemmas': len(lem),
        'lemmas_discharged': sum(1 for o in lem if o.status == 'unsat'),
        'twins': len(twins),
        'twins_sat': sum(1 for o in twins if o.status == 'sat'),
        'solver_time_s': round(sum(o.time for o in self.obs), 2),
        'max_query_s': round(max([o.time for o in self.obs] or [0]), 2),
        'functions_encoded': self.functions,
        'bounds': self.bounds,
        'stubs': sorted(self.stubs),
        'translator_validation_points': self.validated,
        'oracle_validation_points': self.oracle_validated,
        'cross_solver': self.cross,
        'notes': self.notes,
        'harness_errors': self.harness_errors,
        'exhaustive': False,
        'checker_cmd': './check %s --tier %s' % (self.pid, self.tier),
        'trusted_base': ['JAX tracer (jaxpr)', 'SX primitive semantics (validated against JAX at random points each run)',
                         'z3 5.1.0 (cvc5 1.4.0 as second opinion on a sample)'],
    }
    cov.update(self.extra)
    ev = {'property_id': self.pid, 'tier': self.tier, 'seed': self.seed, 'level': self.level, 'coverage': cov,
          'assumptions': self.assumptions, 'wall_s': round(time.time() - self.t0, 2), 'violations': nviol}
    os.makedirs(os.path.join(OUT, 'evidence'), exist_ok=True)
    with open(os.path.join(OUT, 'evidence', self.pid + '.json'), 'w') as f:
      json.dump(ev, f, indent=1, default=str)
    self.log('evidence: obligations=%d discharged=%d (trivial %d) twins=%d/%d queries=%d solver=%.1fs wall=%.1fs' % (
        cov['obligations'], cov['discharged'], cov['trivially_discharged'], cov['twins_sat'], cov['twins'],
        cov['evaluations'], cov['solver_time_s'], ev['wall_s']))


def main(pid, fn):
  import argparse
  import faulthandler
  import signal
  faulthandler.register(signal.SIGUSR1, all_threads=False)     # kill -USR1 <pid> prints the Python stack (diagnosing slow traces)
  ap = argparse.ArgumentParser()
  ap.add_argument('--tier', default=os.environ.get('VERIF_TIER', 'quick'), choices=['quick', 'thorough'])
  ap.add_argument('--replay', default=None)
  a = ap.parse_args(sys.argv[2:] if len(sys.argv) > 1 and sys.argv[1] == pid else sys.argv[1:])
  seed = int(os.environ.get('VERIF_SEED', '0') or 0)
  ck = Check(pid, a.tier, seed)
  try:
    rc = fn(ck, a)
    if rc is None:
      rc = ck.finish()
  except SystemExit:
    raise
  except BaseException as ex:  # harness trouble is never a pass
    traceback.print_exc()
    ck.harness_error('crash: %r' % (ex,))
    try:
      ck.write_evidence(0, [], [])
    except Exception:
      traceback.print_exc()
    rc = EXIT_HARNESS
  sys.exit(rc)
