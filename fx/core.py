"""FX: forking (re-execution) symbolic executor for plain Python / numpy code (DESIGN 1.2).

The real source is executed on `Sym` scalars (wrapping z3 terms, carried in numpy object arrays). `Sym.__bool__` asks the
driver, which explores every feasible path by re-execution (DFS over branch decisions; feasibility decided by z3 under
the path condition). Result: list of (path condition, outcome).
"""
import math
from fractions import Fraction

import numpy as np
import z3

_DRIVER = None


class Infeasible(Exception):
  pass


class Driver:
  def __init__(self, pre=(), max_paths=20000, timeout_ms=10000, budget_s=300.0):
    import time
    self.deadline = time.time() + budget_s      # wall-clock budget for the whole exploration: a fork explosion ends as an error, never as a silent pass
    self.pre = list(pre)
    self.trace = []     # [choice, other_pending]
    self.pos = 0
    self.pc = []
    self.queries = 0
    self.max_paths = max_paths
    self.timeout_ms = timeout_ms
    self.unknown = 0

  def _sat(self, extra):
    s = z3.Solver()
    s.set('timeout', self.timeout_ms)
    s.add(self.pre + self.pc + [extra])
    self.queries += 1
    r = s.check()
    if r == z3.unknown:
      self.unknown += 1
      return True   # keep the path (sound: explores a superset); recorded in `unknown`
    return r == z3.sat

  def decide(self, cond):
    if self.pos < len(self.trace):
      v = self.trace[self.pos][0]
    else:
      t = self._sat(cond)
      f = self._sat(z3.Not(cond))
      if not (t or f):
        raise Infeasible()
      v = t
      self.trace.append([v, t and f])
    self.pos += 1
    self.pc.append(cond if v else z3.Not(cond))
    return v

  def paths(self, fn):
    """yield (path condition list, ('ok', value) | ('raise', exception))"""
    global _DRIVER
    n = 0
    while True:
      self.pos, self.pc = 0, []
      _DRIVER = self
      try:
        out = ('ok', fn())
      except Infeasible:
        out = None
      except Exception as e:  # the code under test raised
        out = ('raise', e)
      finally:
        _DRIVER = None
      if out is not None:
        yield list(self.pc), out
      n += 1
      if n >= self.max_paths:
        raise RuntimeError('FX: path limit exceeded')
      import time
      if time.time() > self.deadline:
        raise RuntimeError('FX: time budget exceeded after %d paths' % n)
      while self.trace and not self.trace[-1][1]:
        self.trace.pop()
      if not self.trace:
        return
      self.trace[-1] = [not self.trace[-1][0], False]


def lift(x, like=None):
  if isinstance(x, Sym):
    return x.e
  if isinstance(x, z3.ExprRef):
    return x
  if isinstance(x, (bool, np.bool_)):
    return z3.BoolVal(bool(x))
  if isinstance(x, (int, np.integer)):
    if like is not None and z3.is_int(like):
      return z3.IntVal(int(x))
    return z3.RealVal(int(x))
  if isinstance(x, Fraction):
    return z3.RealVal(str(x))
  if isinstance(x, (float, np.floating)):
    if math.isinf(x) or math.isnan(x):
      raise ValueError('non-finite constant in symbolic arithmetic')
    return z3.RealVal(str(Fraction(repr(float(x)))))
  raise TypeError(type(x))


def _coerce(a, b):
  la = a.e if isinstance(a, Sym) else None
  lb = b.e if isinstance(b, Sym) else None
  la2 = la if la is not None else lift(a, lb)
  lb2 = lb if lb is not None else lift(b, la)
  if z3.is_bool(la2) and not z3.is_bool(lb2):
    la2 = z3.If(la2, z3.IntVal(1) if z3.is_int(lb2) else z3.RealVal(1), z3.IntVal(0) if z3.is_int(lb2) else z3.RealVal(0))
  if z3.is_bool(lb2) and not z3.is_bool(la2):
    lb2 = z3.If(lb2, z3.IntVal(1) if z3.is_int(la2) else z3.RealVal(1), z3.IntVal(0) if z3.is_int(la2) else z3.RealVal(0))
  return la2, lb2


class Sym:
  """symbolic scalar"""
  __array_priority__ = 1000

  def __init__(self, e):
    self.e = e

  def __bool__(self):
    c = self.e if z3.is_bool(self.e) else self.e != 0
    c = z3.simplify(c)
    if z3.is_true(c):
      return True
    if z3.is_false(c):
      return False
    if _DRIVER is None:
      raise RuntimeError('symbolic branch outside an FX driver')
    return _DRIVER.decide(c)

  __array_ufunc__ = None      # numpy defers binary operators to the methods below

  def _bin(op, swap=False):
    def f(self, o):
      if isinstance(o, np.ndarray):
        out = np.empty(o.shape, dtype=object)
        for idx in np.ndindex(*o.shape):
          out[idx] = f(self, o[idx])
        return out
      a, b = _coerce(self, o)
      if swap:
        a, b = b, a
      return Sym(op(a, b))
    return f
  __add__ = _bin(lambda a, b: a + b)
  __radd__ = _bin(lambda a, b: a + b, True)
  __sub__ = _bin(lambda a, b: a - b)
  __rsub__ = _bin(lambda a, b: a - b, True)
  __mul__ = _bin(lambda a, b: a * b)
  __rmul__ = _bin(lambda a, b: a * b, True)
  __truediv__ = _bin(lambda a, b: (z3.ToReal(a) if z3.is_int(a) else a) / (z3.ToReal(b) if z3.is_int(b) else b))
  __rtruediv__ = _bin(lambda a, b: (z3.ToReal(a) if z3.is_int(a) else a) / (z3.ToReal(b) if z3.is_int(b) else b), True)
  __lt__ = _bin(lambda a, b: a < b)
  __le__ = _bin(lambda a, b: a <= b)
  __gt__ = _bin(lambda a, b: a > b)
  __ge__ = _bin(lambda a, b: a >= b)

  def __eq__(self, o):
    if isinstance(o, np.ndarray):
      out = np.empty(o.shape, dtype=object)
      for idx in np.ndindex(*o.shape):
        out[idx] = self.__eq__(o[idx])
      return out
    a, b = _coerce(self, o)
    return Sym(a == b)

  def __ne__(self, o):
    if isinstance(o, np.ndarray):
      out = np.empty(o.shape, dtype=object)
      for idx in np.ndindex(*o.shape):
        out[idx] = self.__ne__(o[idx])
      return out
    a, b = _coerce(self, o)
    return Sym(a != b)

  def __and__(self, o):
    a, b = _coerce(self, o)
    return Sym(z3.And(a, b))
  __rand__ = __and__

  def __or__(self, o):
    a, b = _coerce(self, o)
    return Sym(z3.Or(a, b))
  __ror__ = __or__

  def __invert__(self):
    return Sym(z3.Not(self.e))

  def __neg__(self):
    return Sym(-self.e)

  def __pos__(self):
    return self

  def __abs__(self):
    return Sym(z3.If(self.e >= 0, self.e, -self.e))

  def __pow__(self, p):
    if isinstance(p, (int, float)) and float(p).is_integer() and 0 <= p <= 4:
      r = Sym(lift(1, self.e))
      for _ in range(int(p)):
        r = r * self
      return r
    raise TypeError('symbolic power')

  __hash__ = None

  def __repr__(self):
    return 'Sym(%s)' % self.e

  # numpy ufunc fallbacks used on object arrays
  def sqrt(self):
    raise TypeError('sqrt of symbolic value')


def syms(name, shape=(), sort='real'):
  mk = {'real': z3.Real, 'int': z3.Int, 'bool': z3.Bool}[sort]
  a = np.empty(shape, dtype=object)
  for i in np.ndindex(*shape):
    a[i] = Sym(mk(name + ''.join('_%d' % k for k in i)))
  return a if shape else a[()]


def term(x):
  """z3 term (or python constant) of a value produced by the code under test"""
  if isinstance(x, Sym):
    return x.e
  return x


# --------------------------------------------------------------------------- text tokens (symbolic values through '%f' / np.fromstring)
TOK_BASE = 1.0e9


class Tokens:
  """symbolic numbers survive formatting/parsing round trips as reserved float tokens 1e9 + k"""

  def __init__(self):
    self.terms = []
    self.index = {}

  def tok(self, sym):
    k = sym.e.get_id()
    if k not in self.index:
      self.index[k] = len(self.terms)
      self.terms.append(sym)
    return TOK_BASE + self.index[k]

  def lookup(self, v):
    return self.terms[int(round(v - TOK_BASE))]

  def text(self, sym):
    return '%f' % self.tok(sym)

  def fromstring(self, s, sep=' ', **kw):
    import numpy as _np
    pieces = [p for p in str(s).replace(',', ' ').split() if p]
    vals = [float(p) for p in pieces]
    if not any(v >= TOK_BASE - 0.5 for v in vals):
      return _np.array(vals, dtype=float)
    out = _np.empty(len(vals), dtype=object)
    for i, v in enumerate(vals):
      out[i] = self.lookup(v) if v >= TOK_BASE - 0.5 else v
    return out


TOKENS = Tokens()


def _sym_float(self):
  return TOKENS.tok(self)


Sym.__float__ = _sym_float


class NumpyProxy:
  """stands in for the `np` global of a module under FX: np.fromstring understands tokens, everything else is numpy"""

  def __init__(self):
    import numpy as _np
    self._np = _np

  def fromstring(self, s, sep=' ', **kw):
    return TOKENS.fromstring(s, sep=sep, **kw)

  def isinf(self, a):
    a_ = self._np.asarray(a)
    if a_.dtype == object:
      return self._np.array([False if isinstance(v, Sym) else bool(self._np.isinf(v)) for v in a_.reshape(-1)]).reshape(a_.shape)
    return self._np.isinf(a)

  def _close(self, a, b, rtol, atol):
    a_, b_ = self._np.broadcast_arrays(self._np.asarray(a, dtype=object), self._np.asarray(b, dtype=object))
    out = []
    for x, y in zip(a_.reshape(-1), b_.reshape(-1)):
      if isinstance(x, Sym) or isinstance(y, Sym):
        xe, ye = _coerce(x, y)
        d = xe - ye
        ay = z3.If(ye >= 0, ye, -ye)
        tol = lift(float(atol)) + lift(float(rtol)) * ay
        out.append(z3.And(d <= tol, -d <= tol))
      else:
        out.append(z3.BoolVal(bool(self._np.isclose(float(x), float(y), rtol=rtol, atol=atol))))
    return out, a_.shape

  def isclose(self, a, b, rtol=1e-05, atol=1e-08, **kw):
    """elementwise |a - b| <= atol + rtol |b| as ONE symbolic Bool per element (numpy's own isclose would fork several times per element)"""
    out, shp = self._close(a, b, rtol, atol)
    r = self._np.empty(len(out), dtype=object)
    for i, c in enumerate(out):
      c = z3.simplify(c)
      r[i] = True if z3.is_true(c) else False if z3.is_false(c) else Sym(c)
    return r.reshape(shp)

  def allclose(self, a, b, rtol=1e-05, atol=1e-08, **kw):
    out, _ = self._close(a, b, rtol, atol)
    return bool(Sym(z3.And(out))) if out else True

  def __getattr__(self, k):
    return getattr(self._np, k)
