"""Translator validation (DESIGN 1.4): the symbolic outputs of a traced harness, evaluated at random points, must
agree with the real JAX execution of the same function at those points."""
import math
import random

import jax
import jax.numpy as jp
import numpy as np
import z3

from . import core


class ValidationError(Exception):
  pass


def sample_env(ctx, terms, rng, sampler=None, lo=-2.0, hi=2.0):
  fv = core.free_vars(terms)
  env = {}
  defs = set()
  for k, (y, a) in ctx.sqrts.items():
    defs.add(y.decl().name())
  for k, (s, c, a) in ctx.trig.items():
    if z3.is_const(s) and z3.is_const(c):
      defs.add(s.decl().name())
      defs.add(c.decl().name())
  defs.update(ctx.tdefs.keys())
  for k, (v, nm, xs) in ctx.uf.items():
    defs.add(v.decl().name())
  for nm, t in fv.items():
    if nm in defs:
      continue
    v = sampler(nm, t, rng) if sampler else None
    if v is None:
      if nm in ctx.angle_points:
        sh, ch = ctx.angle_points[nm]
        v = 2 * math.atan2(float(sh), float(ch))
      elif z3.is_bool(t):
        v = rng.random() < 0.5
      elif t.is_int():
        v = rng.randint(0, 5)
      else:
        v = round(rng.uniform(lo, hi), 3)
    env[nm] = v
  return env


def validate(ctx, f, args, outs, n=20, seed=0, sampler=None, tol=1e-8, require=(), lo=-2.0, hi=2.0, extra_terms=()):
  """returns number of points compared; raises ValidationError on mismatch"""
  rng = random.Random(seed)
  leaves, tree = jax.tree.flatten(args, is_leaf=core._leaf)
  in_cells = []
  for l in leaves:
    if isinstance(l, core.Typed):
      in_cells.extend(l.arr.reshape(-1).tolist())
    elif isinstance(l, np.ndarray) and l.dtype == object:
      in_cells.extend(l.reshape(-1).tolist())
  out_leaves = jax.tree.leaves(outs, is_leaf=lambda x: isinstance(x, np.ndarray))
  all_terms = [c for c in in_cells if not core.isc(c)]
  for o in out_leaves:
    all_terms.extend(c for c in o.reshape(-1).tolist() if not core.isc(c))
  all_terms.extend(list(require))
  all_terms.extend(extra_terms)
  done = 0
  tries = 0
  while done < n and tries < 200 * n:
    tries += 1
    env = sample_env(ctx, all_terms, rng, sampler, lo, hi)
    if require:
      try:
        if not all(bool(core.evalf(ctx, r, env)) for r in require):
          continue
      except (ZeroDivisionError, ValueError, OverflowError):
        continue
    conc = []
    for l in leaves:
      if isinstance(l, core.Typed):
        v = core.evalf(ctx, l.arr, env)
        conc.append(jp.asarray(np.asarray(v).astype(l.dtype)))
      elif isinstance(l, np.ndarray) and l.dtype == object:
        v = core.evalf(ctx, l, env)
        conc.append(jp.asarray(np.asarray(v).astype(core._infer_dtype(l))))
      else:
        conc.append(jp.asarray(l))
    real = f(*jax.tree.unflatten(tree, conc))
    real_leaves = jax.tree.leaves(real)
    if len(real_leaves) != len(out_leaves):
      raise ValidationError('output structure differs')
    for k, (r, o) in enumerate(zip(real_leaves, out_leaves)):
      r = np.asarray(r)
      sv = core.evalf(ctx, o, env)
      try:
        sv = np.asarray(sv).astype(float)
      except (TypeError, ValueError):
        sv = np.asarray([float(x) for x in np.asarray(sv).reshape(-1)]).reshape(r.shape)
      rf = r.astype(float)
      if rf.shape != sv.shape:
        raise ValidationError('shape mismatch on output %d' % k)
      bad = ~(np.isclose(rf, sv, rtol=tol, atol=tol) | (np.isnan(rf) & np.isnan(sv)))
      if bad.any():
        i = np.argwhere(bad)[0]
        raise ValidationError('SX disagrees with JAX on output leaf %d cell %s: jax=%r sx=%r (point %d)' % (
            k, tuple(i), rf[tuple(i)], sv[tuple(i)], done))
    done += 1
  if done < n:
    raise ValidationError('could not sample %d points satisfying the preconditions (got %d)' % (n, done))
  return done
