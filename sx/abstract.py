"""Skeleton abstraction: keep the additive / constant-multiple skeleton of a term and replace every large non-linear chunk (If, division, product
of non-constants, ... whose DAG is bigger than `keep`) by a fresh real variable, the same variable for the same AST.  The abstracted formula is a
GENERALISATION of the original (valid for all values of the chunks), so `unsat` of the abstracted query implies `unsat` of the original; a `sat`
answer may be spurious and must be confirmed on the real terms / real code."""
import z3


class Abstractor:
  def __init__(self, keep=25):
    self.keep = keep
    self.size = {}
    self.memo = {}
    self.atoms = {}
    self.keepalive = []

  def dag_size(self, t):
    i0 = t.get_id()
    if i0 in self.size:
      return self.size[i0]
    r = self._dag_size(t)
    self.size[i0] = r
    self.keepalive.append(t)
    return r

  def _dag_size(self, t):
    seen = set()
    stack = [t]
    n = 0
    while stack:
      x = stack.pop()
      i = x.get_id()
      if i in seen:
        continue
      seen.add(i)
      n += 1
      if n > self.keep + 1:
        return n
      stack.extend(x.children())
    return n

  def atom(self, t):
    i = t.get_id()
    if i not in self.atoms:
      self.atoms[i] = z3.Real('chunk!%d' % len(self.atoms))
      self.keepalive.append(t)
    return self.atoms[i]

  def term(self, t):
    i = t.get_id()
    if i in self.memo:
      return self.memo[i]
    r = self._term(t)
    self.memo[i] = r
    self.keepalive.append(t)
    return r

  def _term(self, t):
    if z3.is_rational_value(t) or z3.is_int_value(t) or z3.is_const(t):
      return t
    k = t.decl().kind()
    ch = t.children()
    if k == z3.Z3_OP_ADD:
      r = self.term(ch[0])
      for c in ch[1:]:
        r = r + self.term(c)
      return r
    if k == z3.Z3_OP_SUB:
      r = self.term(ch[0])
      for c in ch[1:]:
        r = r - self.term(c)
      return r
    if k == z3.Z3_OP_UMINUS:
      return -self.term(ch[0])
    if k == z3.Z3_OP_MUL:
      consts = [c for c in ch if z3.is_rational_value(c)]
      rest = [c for c in ch if not z3.is_rational_value(c)]
      if len(rest) <= 1:
        r = self.term(rest[0]) if rest else z3.RealVal(1)
        for c in consts:
          r = c * r
        return r
      # product of non-constants: keep small ones, distribute a constant-free product over its factors' abstractions
      if self.dag_size(t) <= self.keep:
        return t
      r = None
      for c in rest:
        a = self.term(c)
        r = a if r is None else r * a
      for c in consts:
        r = c * r
      return r
    if k == z3.Z3_OP_DIV and z3.is_rational_value(ch[1]):
      return self.term(ch[0]) / ch[1]
    if k == z3.Z3_OP_DIV:
      # a / b  ->  skeleton(a) * (1/b as one chunk): keeps  (p)/(d) + (-p)/(d) == 0  provable
      i = ('inv', ch[1].get_id())
      if i not in self.atoms:
        self.atoms[i] = z3.Real('chunk!inv%d' % len(self.atoms))
        self.keepalive.append(ch[1])
      return self.term(ch[0]) * self.atoms[i]
    if self.dag_size(t) <= self.keep:
      return t
    return self.atom(t)

  def formula(self, f):
    if z3.is_true(f) or z3.is_false(f):
      return f
    k = f.decl().kind()
    ch = f.children()
    if k == z3.Z3_OP_AND:
      return z3.And([self.formula(c) for c in ch])
    if k == z3.Z3_OP_OR:
      return z3.Or([self.formula(c) for c in ch])
    if k == z3.Z3_OP_NOT:
      return z3.Not(self.formula(ch[0]))
    if k in (z3.Z3_OP_EQ, z3.Z3_OP_DISTINCT, z3.Z3_OP_LE, z3.Z3_OP_LT, z3.Z3_OP_GE, z3.Z3_OP_GT) and not z3.is_bool(ch[0]):
      a, b = self.term(ch[0]), self.term(ch[1])
      return {z3.Z3_OP_EQ: a == b, z3.Z3_OP_DISTINCT: a != b, z3.Z3_OP_LE: a <= b, z3.Z3_OP_LT: a < b, z3.Z3_OP_GE: a >= b, z3.Z3_OP_GT: a > b}[k]
    return f
