"""SX: interpret the jaxpr of a real brax function over numpy object arrays whose cells are exact constants
(int / Fraction / bool / +-inf) or z3 terms (Real / Int / Bool).  See DESIGN.md section 1.1.

Unknown primitives raise SXUnsupported (the checks turn that into exit 3: harness error, never a pass).
"""
import os
os.environ.setdefault('JAX_PLATFORMS', 'cpu')
import math
import operator
from fractions import Fraction

import jax
jax.config.update('jax_enable_x64', True)
import jax.numpy as jp
import numpy as np
import os
import tempfile

import z3
import jax._src.core as jcore

INF = float('inf')


class SXUnsupported(Exception):
  pass


# --------------------------------------------------------------------------- scalars

def isc(x):
  return not isinstance(x, z3.ExprRef)


def is_int_term(x):
  return isinstance(x, z3.ArithRef) and x.is_int()


def lift(x, like=None):
  """python scalar -> z3 term (Real unless `like` is an Int term and x is integral)."""
  if isinstance(x, z3.ExprRef):
    return x
  if isinstance(x, (bool, np.bool_)):
    return z3.BoolVal(bool(x))
  if isinstance(x, (int, np.integer)):
    if like is not None and is_int_term(like):
      return z3.IntVal(int(x))
    return z3.RealVal(int(x))
  if isinstance(x, Fraction):
    if like is not None and is_int_term(like) and x.denominator == 1:
      return z3.IntVal(int(x))
    return z3.RealVal(str(x))
  if isinstance(x, (float, np.floating)):
    if not math.isfinite(x):
      raise ValueError('cannot lift non-finite %r' % x)
    return z3.RealVal(str(Fraction(repr(float(x)))))
  raise TypeError(type(x))


def num(x):
  """normalise a concrete python scalar to int / Fraction / bool / +-inf"""
  if isinstance(x, (bool, np.bool_)):
    return bool(x)
  if isinstance(x, (int, np.integer)):
    return int(x)
  if isinstance(x, Fraction):
    return int(x) if x.denominator == 1 else x
  if isinstance(x, (float, np.floating)):
    x = float(x)
    if math.isinf(x):
      return x
    if math.isnan(x):
      raise ValueError('nan constant')
    f = Fraction(repr(x))
    return int(f) if f.denominator == 1 else f
  raise TypeError(type(x))


def _isinf(x):
  return isinstance(x, float) and math.isinf(x)


def s_add(a, b):
  if isc(a) and isc(b):
    return num(a + b)
  if isc(a):
    if a == 0:
      return b
    if _isinf(a):
      return a
  if isc(b):
    if b == 0:
      return a
    if _isinf(b):
      return b
  return lift(a, b) + lift(b, a)


def s_sub(a, b):
  if isc(a) and isc(b):
    return num(a - b)
  if isc(b):
    if b == 0:
      return a
    if _isinf(b):
      return -b
  if isc(a) and _isinf(a):
    return a
  if not isc(a) and not isc(b) and a.eq(b):
    return 0
  if isc(a) and a == 0:
    return -b
  return lift(a, b) - lift(b, a)


def s_mul(a, b):
  if isc(a) and isc(b):
    if (_isinf(a) and b == 0) or (_isinf(b) and a == 0):
      raise ValueError('inf*0')
    return num(a * b)
  if isc(a):
    if a == 0:
      return 0
    if a == 1:
      return b
    if a == -1:
      return -b
    if _isinf(a):
      raise SXUnsupported('inf * symbolic')
  if isc(b):
    if b == 0:
      return 0
    if b == 1:
      return a
    if b == -1:
      return -a
    if _isinf(b):
      raise SXUnsupported('symbolic * inf')
  return lift(a, b) * lift(b, a)


def s_div(a, b):
  if isc(a) and isc(b):
    if _isinf(b):
      return 0
    if b == 0:
      raise ZeroDivisionError('concrete division by zero in traced code')
    if _isinf(a):
      return a if b > 0 else -a
    return num(Fraction(a) / Fraction(b))
  if isc(a) and a == 0:
    return 0
  if isc(b):
    if b == 1:
      return a
    if _isinf(b):
      return 0
    if b == 0:
      raise ZeroDivisionError('division of symbolic by concrete zero')
    return lift(a) * lift(1 / Fraction(b))
  la, lb = lift(a), lift(b)
  if la.eq(lb):
    return 1      # x / x (definedness of the denominator is recorded by the caller)
  if is_int_term(la):
    la = z3.ToReal(la)
  if is_int_term(lb):
    lb = z3.ToReal(lb)
  return la / lb


def s_neg(a):
  return num(-a) if isc(a) else -a


def s_sel(p, a, b):
  """select_n(p, a, b): a when p false, b when p true"""
  if isc(p):
    return b if p else a
  if isc(a) and isc(b):
    if type(a) == type(b) and a == b:
      return a
  elif not isc(a) and not isc(b) and a.eq(b):
    return a
  if isinstance(a, bool) or isinstance(b, bool) or z3.is_bool(a) or z3.is_bool(b):
    la, lb = lift(a), lift(b)
  else:
    la, lb = lift(a, b), lift(b, a)
    if la.sort() != lb.sort():
      if is_int_term(la):
        la = z3.ToReal(la)
      if is_int_term(lb):
        lb = z3.ToReal(lb)
  return z3.If(p, lb, la)


def _cmp(op, same):
  def f(a, b):
    if isc(a) and isc(b):
      return bool(op(a, b))
    if not isc(a) and not isc(b) and a.eq(b):
      return same
    if isc(a) and _isinf(a):
      return bool(op(a, 0))
    if isc(b) and _isinf(b):
      return bool(op(0, b))
    return op(lift(a, b), lift(b, a))
  return f


s_lt = _cmp(operator.lt, False)
s_le = _cmp(operator.le, True)
s_gt = _cmp(operator.gt, False)
s_ge = _cmp(operator.ge, True)


def s_eq(a, b):
  if isc(a) and isc(b):
    return bool(a == b)
  if not isc(a) and not isc(b) and a.eq(b):
    return True
  if (isc(a) and _isinf(a)) or (isc(b) and _isinf(b)):
    return False
  if z3.is_bool(a) or z3.is_bool(b) or isinstance(a, bool) or isinstance(b, bool):
    return lift(a) == lift(b)
  return lift(a, b) == lift(b, a)


def s_ne(a, b):
  r = s_eq(a, b)
  return (not r) if isc(r) else z3.Not(r)


def s_and(a, b):
  if isc(a):
    return b if a else False
  if isc(b):
    return a if b else False
  return z3.And(a, b)


def s_or(a, b):
  if isc(a):
    return True if a else b
  if isc(b):
    return True if b else a
  return z3.Or(a, b)


def s_not(a):
  return (not a) if isc(a) else z3.Not(a)


def s_abs(a):
  if isc(a):
    return abs(a)
  return z3.If(a >= 0, a, -a)


def s_max(a, b):
  if isc(a) and isc(b):
    return max(a, b)
  if isc(a) and _isinf(a):
    return a if a > 0 else b
  if isc(b) and _isinf(b):
    return b if b > 0 else a
  if not isc(a) and not isc(b) and a.eq(b):
    return a
  la, lb = lift(a, b), lift(b, a)
  return z3.If(la >= lb, la, lb)


def s_min(a, b):
  if isc(a) and isc(b):
    return min(a, b)
  if isc(a) and _isinf(a):
    return a if a < 0 else b
  if isc(b) and _isinf(b):
    return b if b < 0 else a
  if not isc(a) and not isc(b) and a.eq(b):
    return a
  la, lb = lift(a, b), lift(b, a)
  return z3.If(la <= lb, la, lb)


def s_sign(a):
  if isc(a):
    return (a > 0) - (a < 0)
  if is_int_term(a):
    return z3.If(a > 0, z3.IntVal(1), z3.If(a < 0, z3.IntVal(-1), z3.IntVal(0)))
  return z3.If(a > 0, z3.RealVal(1), z3.If(a < 0, z3.RealVal(-1), z3.RealVal(0)))


def s_trunc_div(a, b):
  """C-style integer division (lax.div on ints)"""
  if isc(a) and isc(b):
    q = abs(a) // abs(b)
    return q if (a >= 0) == (b >= 0) else -q
  if isc(b) and b > 0:
    la = lift(a, z3.IntVal(0)) if isc(a) else a
    return z3.If(la >= 0, la / z3.IntVal(b), -((-la) / z3.IntVal(b)))
  raise SXUnsupported('integer div with symbolic divisor')


def s_rem(a, b):
  """lax.rem: sign of dividend"""
  if isc(a) and isc(b):
    if isinstance(a, int) and isinstance(b, int):
      return int(math.fmod(a, b))
    return num(Fraction(a) - Fraction(b) * int(Fraction(a) / Fraction(b)))
  if isc(b) and isinstance(b, int) and b != 0 and is_int_term(a):
    m = z3.IntVal(abs(b))
    return z3.If(a >= 0, a % m, -((-a) % m))
  if (isc(a) or is_int_term(a)) and (isc(b) or is_int_term(b)):
    la = a if not isc(a) else z3.IntVal(a)
    lb = b if not isc(b) else z3.IntVal(b)
    ab = z3.If(lb >= 0, lb, -lb)
    return z3.If(la >= 0, la % ab, -((-la) % ab))
  raise SXUnsupported('rem on symbolic reals')


# --------------------------------------------------------------------------- arrays

def is_sym(a):
  return isinstance(a, np.ndarray) and a.dtype == object


def to_obj(a):
  if isinstance(a, Typed):
    a = a.arr
  a = np.asarray(a)
  if a.dtype == object:
    return a
  out = np.empty(a.shape, dtype=object)
  flat = out.reshape(-1)
  src = a.reshape(-1)
  if a.dtype.kind == 'f':
    for i in range(src.size):
      flat[i] = num(float(src[i]))
  elif a.dtype.kind in 'iu':
    for i in range(src.size):
      flat[i] = int(src[i])
  elif a.dtype.kind == 'b':
    for i in range(src.size):
      flat[i] = bool(src[i])
  else:
    raise TypeError(a.dtype)
  return flat.reshape(a.shape) if a.shape else out


def ew(f, nin):
  vf = np.frompyfunc(f, nin, 1)

  def g(*args):
    args = [to_obj(a) for a in args]
    r = vf(*args)
    if not isinstance(r, np.ndarray):
      r0 = np.empty((), dtype=object)
      r0[()] = r
      r = r0
    return r
  return g


def obj_array(lst, shape=None):
  a = np.empty(len(lst), dtype=object)
  for i, v in enumerate(lst):
    a[i] = v
  return a.reshape(shape) if shape is not None else a


class Typed:
  """marks the jax dtype of a symbolic/exact leaf (default: inferred)"""

  def __init__(self, arr, dtype):
    self.arr = to_obj(arr)
    self.dtype = np.dtype(dtype)
    self.shape = self.arr.shape


def reals(name, shape=()):
  a = np.empty(shape, dtype=object)
  for idx in np.ndindex(*shape):
    a[idx] = z3.Real(name + ''.join('_%d' % i for i in idx))
  return a


def ints(name, shape=()):
  a = np.empty(shape, dtype=object)
  for idx in np.ndindex(*shape):
    a[idx] = z3.Int(name + ''.join('_%d' % i for i in idx))
  return Typed(a, np.int32)


def bools(name, shape=()):
  a = np.empty(shape, dtype=object)
  for idx in np.ndindex(*shape):
    a[idx] = z3.Bool(name + ''.join('_%d' % i for i in idx))
  return Typed(a, np.bool_)


def consts(values, dtype=np.float64):
  """exact constants (Fractions / ints) as a typed leaf"""
  return Typed(to_obj(np.asarray(values, dtype=object)), dtype)


def _infer_dtype(a):
  for v in a.reshape(-1):
    if isinstance(v, (bool, np.bool_)) or z3.is_bool(v):
      return np.dtype(np.bool_)
    if is_int_term(v):
      return np.dtype(np.int32)
    return np.dtype(np.float64)
  return np.dtype(np.float64)


# --------------------------------------------------------------------------- context

class Ctx:
  """carries side constraints, abstraction tables and assumptions of one symbolic run"""

  def __init__(self, trig='pair', fold=False, assume=()):
    self.side = []            # definitional constraints (sqrt, sin/cos pairs, axioms)
    self.assume = list(assume)  # harness preconditions (used by predicate folding)
    self.n = 0
    self.trig_mode = trig
    self.trig = {}            # key -> (s, c, argterm)
    self.angle_points = {}    # z3 var name -> (s_half, c_half) exact values of sin(v/2), cos(v/2)
    self.uf = {}              # key -> (fresh term, name, args)
    self.sqrts = {}           # key -> (y, arg)
    self.keep = []            # keeps ASTs alive (ids are reused after GC)
    self.fold = fold
    self.fold_cache = {}
    self.fold_stats = {'queries': 0, 'folded': 0, 'time': 0.0}
    self.defined = []         # (description, denominator term) definedness obligations
    self.stubs = set()
    self.prim_count = {}
    self.rand = {}
    self.sqrt_hook = None     # optional f(ctx, a) -> value or None
    self.saturate = False
    self.pair_cos_min = None
    self.tparam_bound = None
    self.sqrt_candidates = []  # candidate closed forms r for sqrt arguments (checked by lemma queries)
    self.sqrt_folded = {}
    self.lemma_stats = {'queries': 0, 'folded': 0, 'time': 0.0}
    self.tvars = {}           # tparam mode: key -> t with (sin, cos) = (2t/(1+t^2), (1-t^2)/(1+t^2))
    self.tdefs = {}           # t name -> argument term
    self.lemma_timeout = 20000

  def fresh(self, p, sort='real'):
    self.n += 1
    nm = '%s!%d' % (p, self.n)
    return {'real': z3.Real, 'int': z3.Int, 'bool': z3.Bool}[sort](nm)

  # -- sqrt
  def sqrt(self, a):
    if isc(a):
      if a == 0:
        return 0
      r = Fraction(a)
      if r < 0:
        raise ValueError('sqrt of negative constant')
      n, d = r.numerator, r.denominator
      sn, sd = math.isqrt(n), math.isqrt(d)
      if sn * sn == n and sd * sd == d:
        return num(Fraction(sn, sd))
      a = lift(a)
    if self.sqrt_hook is not None:
      r = self.sqrt_hook(self, a)
      if r is not None:
        return r
    k = a.get_id()
    if k not in self.sqrts and z3.is_mul(a) and len(a.children()) == 2 and a.children()[0].eq(a.children()[1]):
      # sqrt(x*x) = |x|: fold to x (or -x) when the sign of x is decided under assume + side
      x = a.children()[0]
      r = self.fold_bool(x >= 0) if self.fold else None
      if r is True:
        return x
      r2 = self.fold_bool(x <= 0) if self.fold else None
      if r2 is True:
        return -x
    if k not in self.sqrts and self.sqrt_candidates:
      r = self._sqrt_by_lemma(a)
      if r is not None:
        return r
    if k not in self.sqrts:
      y = self.fresh('sqrt')
      self.side += [y >= 0, y * y == a]
      self.sqrts[k] = (y, a)
      self.keep.append(a)
    return self.sqrts[k][0]

  def _sqrt_by_lemma(self, a):
    """fold sqrt(a) to a candidate r when  assume => (a == r*r and r >= 0)  is valid (two solver lemmas, DESIGN 1.3)"""
    from .fr import Fr
    import time
    k = a.get_id()
    if k in self.sqrt_folded:
      return self.sqrt_folded[k][1]
    t0 = time.time()
    res = None
    for r in self.sqrt_candidates:
      fr = Fr()
      rl = lift(r)
      self.lemma_stats['queries'] += 1
      if lemma_unsat([fr.formula(x) for x in self.assume] + [z3.Not(z3.And(fr.formula(a == rl * rl), fr.formula(rl >= 0)))], self.lemma_timeout):
        res = r
        self.lemma_stats['folded'] += 1
        break
    self.lemma_stats['time'] += time.time() - t0
    self.sqrt_folded[k] = (a, res)
    return res

  # -- sin / cos
  def _angle_of(self, a):
    """a == k * v  with v a registered angle variable -> (name, k) else None"""
    t = z3.simplify(lift(a))
    if z3.is_const(t) and t.decl().kind() == z3.Z3_OP_UNINTERPRETED:
      return (t.decl().name(), Fraction(1))
    if z3.is_mul(t) and len(t.children()) == 2:
      c, v = t.children()
      if z3.is_rational_value(c) and z3.is_const(v) and v.decl().kind() == z3.Z3_OP_UNINTERPRETED:
        return (v.decl().name(), Fraction(c.numerator_as_long(), c.denominator_as_long()))
    return None

  def sincos(self, a):
    if isc(a):
      if a == 0:
        return (0, 1)
      # irrational ground values: a circle point pinned to the float64 value within 1e-12 (same argument -> same pair)
      key = 'const:%r' % (a,)
      if key not in self.trig:
        s, c = self.fresh('sinc'), self.fresh('cosc')
        fs, fc = Fraction(repr(math.sin(float(a)))), Fraction(repr(math.cos(float(a))))
        eps = Fraction(1, 10**12)
        if getattr(self, 'tight_trig', False) and abs(Fraction(a)) < Fraction(1, 1000):
          # tiny ground angles: sound Taylor enclosures with RELATIVE precision (the absolute 1e-12 pin is useless for sin(1e-11))
          x = Fraction(a)
          ax = abs(x)
          slo, shi = ax - ax ** 3 / 6, ax
          if x < 0:
            slo, shi = -shi, -slo
          self.side += [s * s + c * c == 1, s >= lift(slo), s <= lift(shi), c >= lift(1 - x * x / 2), c <= lift(1 - x * x / 2 + x ** 4 / 24)]
        else:
          self.side += [s * s + c * c == 1, s >= lift(fs - eps), s <= lift(fs + eps), c >= lift(fc - eps), c <= lift(fc + eps)]
        self.trig[key] = (s, c, lift(a))
      return self.trig[key][:2]
    av = self._angle_of(a)
    if av is not None and av[0] in self.angle_points:
      sh, ch = self.angle_points[av[0]]
      k = av[1]
      if k == Fraction(1, 2):
        return (sh, ch)
      if k == Fraction(-1, 2):
        return (s_neg(sh), ch)
      if k == 1:
        return (s_mul(2, s_mul(sh, ch)), s_sub(s_mul(ch, ch), s_mul(sh, sh)))
      if k == -1:
        return (s_neg(s_mul(2, s_mul(sh, ch))), s_sub(s_mul(ch, ch), s_mul(sh, sh)))
    key = z3.simplify(lift(a)).sexpr()
    if key not in self.trig:
      if self.trig_mode == 'tparam':
        t = self.fresh('t')
        if self.tparam_bound is not None:
          self.side += [t >= -lift(self.tparam_bound), t <= lift(self.tparam_bound)]
        self.tvars[av[0] if av is not None else key] = t
        self.tdefs[t.decl().name()] = lift(a)
        self.trig[key] = (2 * t / (1 + t * t), (1 - t * t) / (1 + t * t), lift(a))
      else:
        s, c = self.fresh('sin'), self.fresh('cos')
        self.side.append(s * s + c * c == 1)
        if self.pair_cos_min is not None:
          self.side.append(c >= lift(self.pair_cos_min))   # harness fact: half-angles of coordinates in a bounded range
        self.trig[key] = (s, c, lift(a))
    return self.trig[key][:2]

  # -- uninterpreted transcendental applications
  def app(self, name, xs):
    key = name + '|' + '|'.join(str(lift(x).get_id()) for x in xs)
    if key not in self.uf:
      v = self.fresh(name)
      self.uf[key] = (v, name, [lift(x) for x in xs])
      self.keep.extend(self.uf[key][2])
      self._axioms(name, v, self.uf[key][2])
    return self.uf[key][0]

  def _axioms(self, name, v, xs):
    """sound real-arithmetic facts about the abstracted transcendental application v = name(xs).
    In saturation mode (self.saturate) exp may be 0 and tanh may be +-1, as float32 does for large arguments."""
    x = xs[0]
    one, zero = z3.RealVal(1), z3.RealVal(0)
    if name == 'exp':
      if self.saturate:
        self.side += [v >= 0, z3.Implies(x >= 0, v >= 1), z3.Implies(x <= 0, v <= 1)]
      else:
        self.side += [v > 0, v >= 1 + x, z3.Implies(x <= 0, v * (1 - x) <= 1), z3.Implies(x >= 0, v >= 1), z3.Implies(x <= 0, v <= 1)]
    elif name == 'tanh':
      self.side += [v >= -1, v <= 1, z3.Implies(x >= 0, v >= 0), z3.Implies(x <= 0, v <= 0), z3.Implies(x >= 0, v <= x), z3.Implies(x <= 0, v >= x)]
      if not self.saturate:
        self.side += [v > -1, v < 1]
    elif name == 'logistic':
      self.side += [v >= 0, v <= 1, z3.Implies(x >= 0, 2 * v >= 1), z3.Implies(x <= 0, 2 * v <= 1)]
    elif name == 'log1p':
      self.side += [z3.Implies(x >= 0, v >= 0), z3.Implies(x > -1, v <= x), z3.Implies(x > -1, v * (1 + x) >= x)]
    elif name == 'log':
      self.side += [z3.Implies(x > 0, v <= x - 1), z3.Implies(x > 0, v * x >= x - 1)]
    elif name in ('acos',):
      self.side += [v >= 0, v <= z3.RealVal('3.1415926536')]
    elif name in ('asin',):
      self.side += [v >= z3.RealVal('-1.5707963268'), v <= z3.RealVal('1.5707963268')]
    elif name == 'atan2':
      self.side += [v >= z3.RealVal('-3.1415926536'), v <= z3.RealVal('3.1415926536')]

  def congruence(self, limit=400):
    """functional-congruence instances for the uninterpreted applications: equal arguments => equal values (pairwise, same function)"""
    by = {}
    for key, (v, nm, xs) in self.uf.items():
      by.setdefault((nm, len(xs)), []).append((v, xs))
    out = []
    for (nm, k), lst in by.items():
      for i in range(len(lst)):
        for j in range(i + 1, len(lst)):
          if len(out) >= limit:
            return out
          (v1, x1), (v2, x2) = lst[i], lst[j]
          out.append(z3.Implies(z3.And([a == b for a, b in zip(x1, x2)]), v1 == v2))
    return out

  # -- predicate folding
  def fold_bool(self, p):
    """try to decide a symbolic Bool under assume+side; returns True/False or the term"""
    if isc(p) or not self.fold:
      return p
    k = p.get_id()
    if k in self.fold_cache:
      return self.fold_cache[k][1]
    import time
    t0 = time.time()
    res = p
    from .fr import Fr
    fr = Fr()
    try:
      p2 = fr.formula(p)
      pre = [fr.formula(x) for x in self.assume + self.side]
    except NotImplementedError:
      p2, pre = p, self.assume + self.side
    self.fold_stats['queries'] += 1
    r_ = fold_query(pre, p2, self.lemma_timeout)
    if r_ is not None:
      res = r_
    if isc(res):
      self.fold_stats['folded'] += 1
    self.fold_stats['time'] += time.time() - t0
    self.fold_cache[k] = (p, res)
    return res



# --------------------------------------------------------------------------- lemma queries in a killable subprocess
_LEMMA_WORKER = [None]


def fold_query(pre, p, timeout_ms):
  """decide the guard p under the assumptions pre in the killable worker: True / False / None (undecided).  One request, both polarities, same
  solver sequence (push / check / pop / check) as the original in-process folding; the worker is killed if it overruns 2 * timeout + grace."""
  from . import solve as _solve
  fs = [f if not isinstance(f, bool) else z3.BoolVal(f) for f in list(pre) + [p]]
  if os.environ.get('VERIF_LEMMA_INPROC'):
    s_ = z3.Solver()
    s_.set('timeout', int(timeout_ms))
    s_.add(fs[:-1])
    s_.push()
    s_.add(fs[-1])
    if s_.check() == z3.unsat:
      return False
    s_.pop()
    s_.add(z3.Not(fs[-1]))
    return True if s_.check() == z3.unsat else None
  ctx = z3.main_ctx()
  n = len(fs) - 1
  arr = (z3.Ast * max(n, 1))()
  for i in range(n):
    arr[i] = fs[i].as_ast()
  smt2 = z3.Z3_benchmark_to_smtlib_string(ctx.ref(), 'fold', '', 'unknown', '', n, arr, fs[-1].as_ast())
  os.makedirs(_solve.SCRATCH, exist_ok=True)
  fd, path = tempfile.mkstemp(suffix='.smt2', prefix='fold', dir=_solve.SCRATCH)
  try:
    with os.fdopen(fd, 'w') as f:
      f.write(smt2)
    if _LEMMA_WORKER[0] is None:
      _LEMMA_WORKER[0] = _solve._Worker()
    r = _LEMMA_WORKER[0].solve(path, max(timeout_ms / 1000.0, 0.05), None, grace=max(timeout_ms / 1000.0, 0.05) + 2.0, mode='fold')
  finally:
    try:
      os.unlink(path)
    except OSError:
      pass
  return {'true': True, 'false': False}.get(r.get('status'))


def lemma_unsat(formulas, timeout_ms, incremental=False):
  """True iff the conjunction of `formulas` is shown unsat within the timeout.  Solved in a worker subprocess that is KILLED when it overruns
  (in-process nlsat can ignore its timeout for minutes); anything but a clean `unsat` answer counts as not shown."""
  from . import solve as _solve
  fs = [f for f in formulas if not (isinstance(f, bool) and f)]
  if any(isinstance(f, bool) and not f for f in fs):
    return True
  if not fs:
    return False
  if os.environ.get('VERIF_LEMMA_INPROC'):      # debugging aid only: the in-process solver can ignore its timeout
    s_ = z3.Solver()
    s_.set('timeout', int(timeout_ms))
    s_.add(fs)
    if incremental:
      s_.push()
    return s_.check() == z3.unsat
  ctx = z3.main_ctx()
  n = len(fs) - 1
  arr = (z3.Ast * max(n, 1))()
  for i in range(n):
    arr[i] = fs[i].as_ast()
  smt2 = z3.Z3_benchmark_to_smtlib_string(ctx.ref(), 'lemma', '', 'unknown', '', n, arr, fs[-1].as_ast())
  os.makedirs(_solve.SCRATCH, exist_ok=True)
  fd, path = tempfile.mkstemp(suffix='.smt2', prefix='lemma', dir=_solve.SCRATCH)
  try:
    with os.fdopen(fd, 'w') as f:
      f.write(smt2)
    if _LEMMA_WORKER[0] is None:
      _LEMMA_WORKER[0] = _solve._Worker()
    r = _LEMMA_WORKER[0].solve(path, max(timeout_ms / 1000.0, 0.05), None, grace=2.0, incremental=incremental)
  finally:
    try:
      os.unlink(path)
    except OSError:
      pass
  return r.get('status') == 'unsat'

# --------------------------------------------------------------------------- interpreter

MOVE = {'tile', 'stack', 'unstack', 'split', 'slice', 'squeeze', 'broadcast_in_dim', 'reshape', 'concatenate',
        'gather', 'transpose', 'rev', 'expand_dims', 'dynamic_slice', 'pad', 'copy', 'copy_p', 'real', 'select_and_gather_add'}
CALLS = {'jit', 'pjit', 'closed_call', 'core_call', 'custom_jvp_call', 'custom_vjp_call', 'remat', 'checkpoint',
         'custom_vjp_call_jaxpr', 'custom_lin'}
RANDOM_JITS = {'_normal', '_normal_real', '_uniform', '_randint', '_gamma', '_truncated_normal', '_bernoulli'}


def eval_jaxpr(ctx, jaxpr, cvals, *args):
  env = {}

  def read(v):
    if isinstance(v, jcore.Literal):
      return to_obj(np.asarray(v.val))
    return env[v]

  for v, c in zip(jaxpr.constvars, cvals):
    env[v] = to_obj(c)
  assert len(jaxpr.invars) == len(args), (len(jaxpr.invars), len(args))
  for v, a in zip(jaxpr.invars, args):
    env[v] = to_obj(a)
  for e in jaxpr.eqns:
    ins = [read(v) for v in e.invars]
    name = e.primitive.name
    ctx.prim_count[name] = ctx.prim_count.get(name, 0) + 1
    outs = apply(ctx, e, name, ins)
    if not e.primitive.multiple_results:
      outs = [outs]
    for v, o in zip(e.outvars, outs):
      if not (isinstance(o, np.ndarray) and o.dtype == object):
        o = to_obj(o)
      if o.shape != tuple(v.aval.shape):
        raise AssertionError((name, o.shape, v.aval.shape, str(e)[:300]))
      env[v] = o
  return [read(v) for v in jaxpr.outvars]


def _concrete(a, dtype):
  """object array of concrete cells -> numpy array; raises if symbolic"""
  flat = a.reshape(-1)
  for v in flat:
    if not isc(v):
      raise SXUnsupported('symbolic value where a concrete index is required')
  return np.array([v for v in flat], dtype=object).astype(dtype).reshape(a.shape)


def all_concrete(a):
  return all(isc(v) for v in a.reshape(-1))


def move(e, ins, data_pos=None):
  """data movement: run the real primitive on arrays of cell indices and permute the cells"""
  prim = e.primitive
  offs, flat, arrs = 1, [0], []   # index 0 = fill value
  for i, (a, v) in enumerate(zip(ins, e.invars)):
    if prim.name in ('gather', 'dynamic_slice'):
      is_data = (i == 0)
    elif prim.name == 'pad':
      is_data = True
    else:
      is_data = True
    if is_data:
      n = a.size
      idx = (np.arange(n, dtype=np.int64) + offs).reshape(a.shape)
      offs += n
      flat.extend(a.reshape(-1).tolist())
      arrs.append(jp.asarray(idx))
    else:
      arrs.append(jp.asarray(_concrete(a, v.aval.dtype)))
  out = prim.bind(*arrs, **e.params)

  def pick(o1):
    o1 = np.asarray(o1)
    r1 = np.empty(o1.size, dtype=object)
    of = o1.reshape(-1)
    for k in range(of.size):
      r1[k] = flat[int(of[k])]
    return r1.reshape(o1.shape)
  if prim.multiple_results:
    return [pick(o1) for o1 in out]
  return pick(out)


def reduce_cells(a, axes, f, init):
  axes = sorted(axes)
  a = np.moveaxis(a, axes, list(range(len(axes))))
  rest = a.shape[len(axes):]
  a = a.reshape((-1,) + rest)
  out = np.empty(rest, dtype=object)
  for idx in np.ndindex(*rest):
    acc = init
    for k in range(a.shape[0]):
      v = a[(k,) + idx]
      acc = v if acc is None else f(acc, v)
    out[idx] = acc
  return out


def tdot(a, b, ca, cb):
  a = np.moveaxis(a, list(ca), list(range(a.ndim - len(ca), a.ndim)))
  b = np.moveaxis(b, list(cb), list(range(len(cb))))
  ka = int(np.prod(a.shape[a.ndim - len(ca):], dtype=np.int64))
  sa = a.shape[:a.ndim - len(ca)]
  sb = b.shape[len(cb):]
  A = a.reshape((-1, ka))
  B = b.reshape((ka, -1))
  out = np.empty((A.shape[0], B.shape[1]), dtype=object)
  for i in range(A.shape[0]):
    for j in range(B.shape[1]):
      acc = 0
      for k in range(ka):
        acc = s_add(acc, s_mul(A[i, k], B[k, j]))
      out[i, j] = acc
  return out.reshape(sa + sb)


def _sub_jaxpr(p):
  for k in ('jaxpr', 'call_jaxpr', 'fun_jaxpr'):
    if k in p and p[k] is not None:
      return p[k]
  raise SXUnsupported('no sub jaxpr in %s' % list(p))


def _run_closed(ctx, cj, ins):
  if hasattr(cj, 'consts'):
    return eval_jaxpr(ctx, cj.jaxpr, cj.consts, *ins)
  return eval_jaxpr(ctx, cj, [], *ins)


def _fold_arr(ctx, a):
  if not ctx.fold:
    return a
  out = a.copy()
  fl = out.reshape(-1)
  for i in range(fl.size):
    if not isc(fl[i]) and z3.is_bool(fl[i]):
      fl[i] = ctx.fold_bool(fl[i])
  return out


def _sym_index_cases(idx_cells, lo_hi):
  """enumerate (assignment tuple, condition) for a list of index cells; symbolic cells range over lo..hi (clamped)"""
  cases = [((), True)]
  for cell, (lo, hi) in zip(idx_cells, lo_hi):
    new = []
    if isc(cell):
      v = min(max(int(cell), lo), hi)
      for asg, cond in cases:
        new.append((asg + (v,), cond))
    else:
      for v in range(lo, hi + 1):
        if lo == hi:
          c = True
        elif v == lo:
          c = cell <= lo
        elif v == hi:
          c = cell >= hi
        else:
          c = cell == v
        for asg, cond in cases:
          new.append((asg + (v,), s_and(cond, c)))
    cases = new
  return cases


def _merge_cases(cases_vals):
  """[(cond, object array)] -> If-chain merged object array (last case is the default)"""
  res = cases_vals[-1][1]
  for cond, val in reversed(cases_vals[:-1]):
    res = ew(lambda a, b, cond=cond: s_sel(cond, a, b), 2)(res, val)
  return res


def apply(ctx, e, name, ins):
  p = e.params
  if name in CALLS:
    if name in ('jit', 'pjit') and p.get('name') in RANDOM_JITS:
      return _random_stub(ctx, e, ins)
    return _run_closed(ctx, _sub_jaxpr(p), ins)
  if name in MOVE:
    if name in ('dynamic_slice',) and not all(all_concrete(a) for a in ins[1:]):
      return _dynamic_slice_sym(ctx, e, ins)
    if name == 'gather' and not all_concrete(ins[1]):
      return _gather_sym(ctx, e, ins)
    return move(e, ins)
  if name == 'dynamic_update_slice':
    return _dynamic_update_slice(ctx, e, ins)
  if name == 'add' or name == 'add_any':
    return ew(s_add, 2)(*ins)
  if name == 'sub':
    return ew(s_sub, 2)(*ins)
  if name == 'mul':
    return ew(s_mul, 2)(*ins)
  if name == 'div':
    if e.invars[0].aval.dtype.kind in 'iu':
      return ew(s_trunc_div, 2)(*ins)
    if ctx is not None:
      for d in to_obj(ins[1]).reshape(-1):
        if not isc(d):
          ctx.defined.append(('div', d))
    return ew(s_div, 2)(*ins)
  if name == 'neg':
    return ew(s_neg, 1)(*ins)
  if name == 'abs':
    return ew(s_abs, 1)(*ins)
  if name == 'sign':
    return ew(s_sign, 1)(*ins)
  if name == 'max':
    return ew(s_max, 2)(*ins)
  if name == 'min':
    return ew(s_min, 2)(*ins)
  if name == 'clamp':
    lo, x, hi = ins
    return ew(lambda l, v, h: s_min(s_max(v, l), h), 3)(lo, x, hi)
  if name == 'lt':
    return ew(s_lt, 2)(*ins)
  if name == 'le':
    return ew(s_le, 2)(*ins)
  if name == 'gt':
    return ew(s_gt, 2)(*ins)
  if name == 'ge':
    return ew(s_ge, 2)(*ins)
  if name == 'eq':
    return ew(s_eq, 2)(*ins)
  if name == 'ne':
    return ew(s_ne, 2)(*ins)
  if name in ('and', 'or', 'not', 'xor') and e.invars[0].aval.dtype.kind != 'b':
    return _bitop(ctx, e, name, ins)
  if name == 'and':
    return ew(s_and, 2)(*ins)
  if name == 'or':
    return ew(s_or, 2)(*ins)
  if name == 'not':
    return ew(s_not, 1)(*ins)
  if name == 'xor':
    return ew(lambda a, b: s_ne(a, b), 2)(*ins)
  if name == 'is_finite':
    return ew(lambda a: not _isinf(a) if isc(a) else True, 1)(*ins)
  if name == 'select_n':
    if len(ins) != 3:
      raise SXUnsupported('select_n with %d cases' % (len(ins) - 1))
    pr = _fold_arr(ctx, ins[0])
    if e.invars[0].aval.dtype.kind != 'b':
      pr = ew(lambda v: s_ne(v, 0), 1)(pr)
    return ew(s_sel, 3)(pr, ins[1], ins[2])
  if name == 'rem':
    return ew(s_rem, 2)(*ins)
  if name == 'convert_element_type':
    return _convert(ctx, ins[0], e.invars[0].aval.dtype, np.dtype(p['new_dtype']))
  if name == 'integer_pow':
    y = p['y']

    def pw(x):
      r = 1
      for _ in range(abs(y)):
        r = s_mul(r, x)
      return r if y >= 0 else s_div(1, r)
    return ew(pw, 1)(ins[0])
  if name == 'square':
    return ew(lambda a: s_mul(a, a), 1)(*ins)
  if name == 'sqrt':
    return ew(ctx.sqrt, 1)(*ins)
  if name == 'rsqrt':
    return ew(lambda a: s_div(1, ctx.sqrt(a)), 1)(*ins)
  if name == 'sin':
    return ew(lambda a: ctx.sincos(a)[0], 1)(*ins)
  if name == 'cos':
    return ew(lambda a: ctx.sincos(a)[1], 1)(*ins)
  if name == 'reduce_sum':
    return reduce_cells(ins[0], p['axes'], s_add, 0)
  if name == 'reduce_prod':
    return reduce_cells(ins[0], p['axes'], s_mul, 1)
  if name == 'reduce_and':
    return reduce_cells(ins[0], p['axes'], s_and, True)
  if name == 'reduce_or':
    return reduce_cells(ins[0], p['axes'], s_or, False)
  if name == 'reduce_max':
    return reduce_cells(ins[0], p['axes'], s_max, None)
  if name == 'reduce_min':
    return reduce_cells(ins[0], p['axes'], s_min, None)
  if name in ('cumsum', 'cumprod', 'cummax', 'cummin'):
    f = {'cumsum': s_add, 'cumprod': s_mul, 'cummax': s_max, 'cummin': s_min}[name]
    a = np.moveaxis(ins[0], p['axis'], 0).copy()
    rng = range(a.shape[0] - 2, -1, -1) if p['reverse'] else range(1, a.shape[0])
    for t in rng:
      prev = a[t + 1] if p['reverse'] else a[t - 1]
      a[t] = ew(f, 2)(prev, a[t])
    return np.moveaxis(a, 0, p['axis'])
  if name == 'argmax' or name == 'argmin':
    return _argext(ctx, e, name, ins)
  if name == 'dot_general':
    a, b = ins
    (ca, cb), (ba, bb) = p['dimension_numbers']
    if not ba:
      return tdot(a, b, ca, cb)
    a2 = np.moveaxis(a, list(ba), list(range(len(ba))))
    b2 = np.moveaxis(b, list(bb), list(range(len(bb))))

    def remap(c, bd, nd):
      rest = [i for i in range(nd) if i not in bd]
      return [len(bd) + rest.index(i) - len(bd) for i in c]
    ca2 = remap(ca, ba, a.ndim)
    cb2 = remap(cb, bb, b.ndim)
    bshape = a2.shape[:len(ba)]
    res = None
    def _arr(v):
      if isinstance(v, np.ndarray):
        return v
      o = np.empty((), dtype=object)
      o[()] = v
      return o
    for idx in np.ndindex(*bshape):
      r = tdot(_arr(a2[idx]), _arr(b2[idx]), ca2, cb2)
      if res is None:
        res = np.empty(bshape + r.shape, dtype=object)
      res[idx] = r if r.ndim else r[()]
    if res is None:
      res = np.empty(tuple(e.outvars[0].aval.shape), dtype=object)
    return res
  if name in ('stop_gradient', 'optimization_barrier', 'reduce_precision'):
    return ins[0] if not e.primitive.multiple_results else list(ins)
  if name == 'device_put':
    return list(ins) if e.primitive.multiple_results else ins[0]
  if name == 'scan':
    return _scan(ctx, e, ins)
  if name == 'while':
    return _while(ctx, e, ins)
  if name == 'shard_map':
    return _shard_map(ctx, e, ins)
  if name == 'platform_index':
    return np.array(0, dtype=object)
  if name == 'cond':
    idx = ins[0]
    brs = p['branches']
    i0 = idx.reshape(-1)[0]
    if not isc(i0) and z3.is_bool(i0):
      i0 = ctx.fold_bool(i0)
    if isc(i0):
      br = brs[int(i0)]
      return _run_closed(ctx, br, ins[1:])
    outs = [_run_closed(ctx, br, ins[1:]) for br in brs]
    if len(brs) != 2:
      res = outs[-1]
      for k in range(len(brs) - 2, -1, -1):
        res = [ew(lambda a, b, k=k: s_sel(s_eq(i0, k), a, b), 2)(r, o) for r, o in zip(res, outs[k])]
      return res
    pred = i0 if z3.is_bool(i0) else (i0 != 0)
    return [ew(lambda a, b: s_sel(pred, a, b), 2)(o0, o1) for o0, o1 in zip(*outs)]
  if name in ('atan2', 'acos', 'asin', 'exp', 'log', 'tanh', 'pow', 'log1p', 'logistic', 'erf_inv', 'erf', 'expm1', 'atan',
              'tan', 'exp2', 'atanh', 'asinh', 'acosh', 'sinh', 'cosh'):
    def uf(*xs):
      if name == 'pow' and isc(xs[1]):
        y = Fraction(xs[1])
        if y.denominator == 1 and abs(y) <= 6:
          r = 1
          for _ in range(abs(int(y))):
            r = s_mul(r, xs[0])
          return r if y >= 0 else s_div(1, r)
        if y == Fraction(1, 2):
          return ctx.sqrt(xs[0])
      if all(isc(x) for x in xs):
        v = _const_fn(name, xs)
        if v is not None:
          return v
      return ctx.app(name, xs)
    return ew(uf, len(ins))(*ins)
  if name in ('scatter-add', 'scatter_add', 'scatter'):
    return _scatter(ctx, e, name, ins)
  if name == 'iota':
    return to_obj(np.asarray(e.primitive.bind(**p)))
  if name == 'floor':
    return ew(_floor, 1)(*ins)
  if name == 'ceil':
    return ew(lambda a: s_neg(_floor(s_neg(a))), 1)(*ins)
  if name == 'round':
    def rnd(a):
      if isc(a):
        return int(round(Fraction(a)))   # python round = half-even, like lax ROUND_TO_NEAREST_EVEN
      raise SXUnsupported('round on symbolic')
    return ew(rnd, 1)(*ins)
  if name == 'sort':
    return _sort(ctx, e, ins)
  if name == 'cholesky':
    # the factor is only consumed by custom_linear_solve (interpreted below as the exact solution of A x = b): opaque placeholder cells
    M = ins[0]
    out = np.empty(M.shape, dtype=object)
    for idx in np.ndindex(*M.shape):
      out[idx] = Opaque('cholesky factor cell')
    return out
  if name == 'custom_linear_solve':
    return _custom_linear_solve(ctx, e, ins)
  if name == 'triangular_solve':
    return _triangular_solve(ctx, e, ins)
  if name in ('random_bits', 'random_split', 'random_wrap', 'random_unwrap', 'random_fold_in', 'random_seed',
              'threefry2x32', 'random_clone'):
    return _random_prim(ctx, e, name, ins)
  if name in ('shift_right_logical', 'shift_left', 'shift_right_arithmetic', 'population_count', 'bitcast_convert_type'):
    if all(all_concrete(a) for a in ins):
      arrs = [jp.asarray(_concrete(a, v.aval.dtype)) for a, v in zip(ins, e.invars)]
      return to_obj(np.asarray(e.primitive.bind(*arrs, **p)))
    raise SXUnsupported(name + ' on symbolic')
  if name == 'erf_inv' and all(all_concrete(a) for a in ins):
    return to_obj(np.asarray(e.primitive.bind(jp.asarray(_concrete(ins[0], e.invars[0].aval.dtype)), **p)))
  if name == 'nextafter':
    return ins[0]
  if name == 'pmax' or name == 'pmin' or name == 'psum':
    raise SXUnsupported('collective ' + name)
  raise SXUnsupported('primitive %s' % name)


def _floor(a):
  if isc(a):
    return a if _isinf(a) else math.floor(Fraction(a))
  if is_int_term(a):
    return a
  return z3.ToInt(a)


def _const_fn(name, xs):
  x = xs[0]
  if name == 'exp' and x == 0:
    return 1
  if name in ('log',) and x == 1:
    return 0
  if name in ('log1p', 'tanh', 'asin', 'atan', 'tan', 'expm1', 'erf', 'erf_inv', 'atanh', 'sinh', 'asinh') and x == 0:
    return 0
  if name == 'acos' and x == 1:
    return 0
  if name == 'atan2' and xs[0] == 0 and not _isinf(xs[1]) and xs[1] > 0:
    return 0
  if name == 'pow':
    if xs[1] == 0:
      return 1
    if xs[0] == 1:
      return 1
    y = Fraction(xs[1])
    if y.denominator == 1:
      return num(Fraction(xs[0]) ** int(y))
  if name == 'exp' and _isinf(x) and x < 0:
    return 0
  # ground transcendental constants: float64 evaluation (exact value is irrational; 1e-16 relative error, stated in evidence)
  fns = {'exp': math.exp, 'log': math.log, 'log1p': math.log1p, 'tanh': math.tanh, 'atan2': math.atan2, 'acos': math.acos, 'asin': math.asin,
         'atan': math.atan, 'tan': math.tan, 'expm1': math.expm1, 'erf': math.erf, 'atanh': math.atanh, 'sinh': math.sinh, 'cosh': math.cosh,
         'asinh': math.asinh, 'logistic': lambda a: 1 / (1 + math.exp(-a)), 'pow': math.pow, 'exp2': lambda a: 2.0 ** a}
  if name in fns and not any(_isinf(v) for v in xs):
    try:
      return num(fns[name](*[float(v) for v in xs]))
    except (ValueError, OverflowError, ZeroDivisionError):
      return None
  return None


def _convert(ctx, a, od, nd):
  def cv(x):
    if isc(x):
      if nd.kind == 'f':
        return num(x) if not isinstance(x, bool) else int(x)
      if nd.kind in 'iu':
        if isinstance(x, bool):
          return int(x)
        if _isinf(x):
          raise SXUnsupported('inf -> int')
        f = Fraction(x)
        return int(f) if f.denominator == 1 else int(f)   # truncation toward zero
      if nd.kind == 'b':
        return bool(x != 0)
    if z3.is_bool(x):
      x = ctx.fold_bool(x)
      if isc(x):
        return cv(x)
      if nd.kind == 'f':
        return z3.If(x, z3.RealVal(1), z3.RealVal(0))
      if nd.kind in 'iu':
        return z3.If(x, z3.IntVal(1), z3.IntVal(0))
      return x
    if nd.kind == 'f':
      return z3.ToReal(x) if is_int_term(x) else x
    if nd.kind in 'iu':
      if is_int_term(x):
        return x
      raise SXUnsupported('real -> int conversion of symbolic value')
    if nd.kind == 'b':
      return x != 0
    raise SXUnsupported((str(x)[:40], nd))
  return ew(cv, 1)(a)


def _bitop(ctx, e, name, ins):
  if all(all_concrete(a) for a in ins):
    arrs = [jp.asarray(_concrete(a, v.aval.dtype)) for a, v in zip(ins, e.invars)]
    return to_obj(np.asarray(e.primitive.bind(*arrs, **e.params)))
  raise SXUnsupported('bitwise %s on symbolic ints' % name)


def _scan(ctx, e, ins):
  p = e.params
  cj = p['jaxpr']
  if 'ft_in' in p:
    a_, b_, c_ = p['ft_in'].unpack()
    nc, ncar = len(a_), len(b_)
  else:
    nc, ncar = p['num_consts'], p['num_carry']
  L = p['length']
  rev = p['reverse']
  cs = ins[:nc]
  carry = list(ins[nc:nc + ncar])
  xs = ins[nc + ncar:]
  order = range(L - 1, -1, -1) if rev else range(L)
  collected = {}
  for t in order:
    xt = []
    for x in xs:
      v = x[t]
      if not isinstance(v, np.ndarray):
        v0 = np.empty((), dtype=object)
        v0[()] = v
        v = v0
      xt.append(v)
    outs = eval_jaxpr(ctx, cj.jaxpr, cj.consts, *cs, *carry, *xt)
    carry = list(outs[:ncar])
    collected[t] = outs[ncar:]
  ys = []
  for k, ov in enumerate(cj.jaxpr.outvars[ncar:]):
    shp = (L,) + tuple(ov.aval.shape)
    y = np.empty(shp, dtype=object)
    for t in range(L):
      y[t] = collected[t][k]
    ys.append(y)
  return carry + ys


def _while(ctx, e, ins, max_iter=4096):
  p = e.params
  cn, bn = p['cond_nconsts'], p['body_nconsts']
  cc, bc, st = ins[:cn], ins[cn:cn + bn], list(ins[cn + bn:])
  for _ in range(max_iter):
    c = eval_jaxpr(ctx, p['cond_jaxpr'].jaxpr, p['cond_jaxpr'].consts, *cc, *st)[0].reshape(-1)[0]
    if not isc(c):
      c = ctx.fold_bool(c)
    if not isc(c):
      raise SXUnsupported('while loop with symbolic condition')
    if not c:
      return st
    st = eval_jaxpr(ctx, p['body_jaxpr'].jaxpr, p['body_jaxpr'].consts, *bc, *st)
  raise SXUnsupported('while loop exceeded %d iterations' % max_iter)


def _shard_map(ctx, e, ins):
  """shard_map over a one-axis mesh (what jax.pmap lowers to): run the body once per shard on the block of each input"""
  p = e.params
  mesh = p['mesh']
  names = list(mesh.shape.keys())
  if len(names) != 1:
    raise SXUnsupported('shard_map over a multi-axis mesh')
  ax, n = names[0], mesh.shape[names[0]]

  def dims_of(spec):
    out = []
    for d, ent in enumerate(tuple(spec)):
      ents = ent if isinstance(ent, tuple) else (ent,)
      if ax in [x for x in ents if x is not None]:
        out.append(d)
    return out
  body = p['jaxpr']
  outs_per = []
  for i in range(n):
    blk = []
    for a, spec in zip(ins, p['in_specs']):
      ds = dims_of(spec)
      sl = [slice(None)] * a.ndim
      for d in ds:
        w = a.shape[d] // n
        sl[d] = slice(i * w, (i + 1) * w)
      blk.append(a[tuple(sl)])
    outs_per.append(eval_jaxpr(ctx, body, [], *blk) if not hasattr(body, 'consts') else eval_jaxpr(ctx, body.jaxpr, body.consts, *blk))
  res = []
  for k, spec in enumerate(p['out_specs']):
    ds = dims_of(spec)
    if not ds:
      res.append(outs_per[0][k])
    elif len(ds) == 1:
      res.append(np.concatenate([o[k] for o in outs_per], axis=ds[0]))
    else:
      raise SXUnsupported('shard_map output sharded over several dims')
  return res


def _scatter(ctx, e, name, ins):
  p = e.params
  op, idx, upd = ins
  idxc = jp.asarray(_concrete(idx, e.invars[1].aval.dtype))
  n_op, n_up = op.size, upd.size
  if name == 'scatter':
    a_op = jp.asarray(np.arange(n_op, dtype=np.float64).reshape(op.shape))
    a_up = jp.asarray((np.arange(n_up, dtype=np.float64) + n_op).reshape(upd.shape))
    if n_op + n_up >= 2 ** 24:
      raise SXUnsupported('scatter too large for index tracking')
    o = np.asarray(e.primitive.bind(a_op, idxc, a_up, **p)).astype(int)
    flat = op.reshape(-1).tolist() + upd.reshape(-1).tolist()
    res = np.empty(o.size, dtype=object)
    for k, v in enumerate(o.reshape(-1)):
      res[k] = flat[v]
    return res.reshape(o.shape)
  if n_up == 0:
    return op
  dt_ = e.invars[0].aval.dtype
  basis = np.eye(n_up).reshape((n_up,) + upd.shape)
  z = jp.zeros(op.shape, dtype=dt_)
  S = np.asarray(jax.vmap(lambda u: e.primitive.bind(z, idxc, u, **p))(jp.asarray(basis, dtype=dt_))).reshape(n_up, n_op)
  out = op.reshape(-1).copy()
  uf = upd.reshape(-1)
  for k in range(n_up):
    for t in np.nonzero(S[k])[0]:
      assert S[k, t] == 1
      out[t] = s_add(out[t], uf[k])
  return out.reshape(op.shape)


def _dynamic_slice_sym(ctx, e, ins):
  op = ins[0]
  sizes = e.params['slice_sizes']
  idx_cells = [a.reshape(-1)[0] for a in ins[1:]]
  lohi = [(0, d - s) for d, s in zip(op.shape, sizes)]
  cases = _sym_index_cases(idx_cells, lohi)
  vals = []
  for asg, cond in cases:
    sl = tuple(slice(s, s + z) for s, z in zip(asg, sizes))
    vals.append((cond, op[sl]))
  return _merge_cases(vals)


def _dynamic_update_slice(ctx, e, ins):
  op, upd = ins[0], ins[1]
  idx_cells = [a.reshape(-1)[0] for a in ins[2:]]
  lohi = [(0, d - s) for d, s in zip(op.shape, upd.shape)]
  cases = _sym_index_cases(idx_cells, lohi)
  vals = []
  for asg, cond in cases:
    o = op.copy()
    sl = tuple(slice(s, s + z) for s, z in zip(asg, upd.shape))
    o[sl] = upd
    vals.append((cond, o))
  return _merge_cases(vals)


def _gather_sym(ctx, e, ins):
  """gather with symbolic indices: case split per index row through the real primitive"""
  p = e.params
  op, idx = ins
  dn = p['dimension_numbers']
  mode = p['mode']
  mname = getattr(mode, 'name', str(mode))
  if idx.shape[-1] != len(dn.start_index_map):
    raise SXUnsupported('gather: index_vector_dim not last')
  if getattr(dn, 'operand_batching_dims', ()):
    raise SXUnsupported('gather with batching dims and symbolic indices')
  sizes = p['slice_sizes']
  rows = idx.reshape(-1, idx.shape[-1])
  # per-row candidate ranges
  out_shape = tuple(e.outvars[0].aval.shape)
  # compute output with each row substituted separately: out cells belonging to row r only depend on row r.
  # run the real gather on an index array with ONE row to get that row's slice, for each candidate
  one = dict(p)
  res_rows = []
  fill = p.get('fill_value')
  for r in range(rows.shape[0]):
    lohi = []
    for k, d in enumerate(dn.start_index_map):
      lohi.append((0, op.shape[d] - sizes[d]))
    if 'FILL' in mname or 'fill' in mname.lower():
      # out-of-bounds rows return the fill value: only sound if indices are provably in range; widen by one on both sides
      lohi2 = [(lo - 1, hi + 1) for lo, hi in lohi]
    else:
      lohi2 = lohi
    cases = _sym_index_cases(list(rows[r]), lohi2)
    vals = []
    for asg, cond in cases:
      e_idx = jp.asarray(np.array(asg, dtype=e.invars[1].aval.dtype).reshape((1,) * (idx.ndim - 1) + (idx.shape[-1],)))
      cellidx = jp.asarray((np.arange(op.size, dtype=np.int64) + 1).reshape(op.shape))
      pp = dict(p)
      if 'fill' in mname.lower():
        pp['fill_value'] = 0
      o = np.asarray(e.primitive.bind(cellidx, e_idx, **pp))
      flat = [None] + op.reshape(-1).tolist()
      if fill is None and 'fill' in mname.lower():
        raise SXUnsupported('gather fill mode with symbolic index (NaN fill)')
      flat[0] = fill if fill is not None else 0
      sel = np.empty(o.size, dtype=object)
      for k2, v in enumerate(o.reshape(-1)):
        sel[k2] = flat[int(v)]
      vals.append((cond, sel.reshape(o.shape)))
    res_rows.append(_merge_cases(vals))
  # assemble: use the real primitive with all-rows index layout to find where each single-row output cell goes
  nrows = rows.shape[0]
  if nrows == 1:
    return res_rows[0].reshape(out_shape)
  batch_shape = idx.shape[:-1]
  # single-row output has batch dims of size 1 at the non-offset positions
  single_shape = res_rows[0].shape
  out = np.empty(out_shape, dtype=object)
  offset_dims = tuple(dn.offset_dims)
  batch_pos = [d for d in range(len(out_shape)) if d not in offset_dims]
  for r, bidx in enumerate(np.ndindex(*batch_shape)):
    sl = [slice(None)] * len(out_shape)
    for bp, bi in zip(batch_pos, bidx):
      sl[bp] = slice(bi, bi + 1)
    out[tuple(sl)] = res_rows[r]
  return out


def _argext(ctx, e, name, ins):
  a = ins[0]
  axes = e.params['axes']
  if len(axes) != 1:
    raise SXUnsupported('argmax over several axes')
  ax = axes[0]
  a2 = np.moveaxis(a, ax, 0)
  out = np.empty(a2.shape[1:], dtype=object)
  better = s_gt if name == 'argmax' else s_lt
  for idx in np.ndindex(*a2.shape[1:]):
    best, bi = a2[(0,) + idx], 0
    for k in range(1, a2.shape[0]):
      v = a2[(k,) + idx]
      c = better(v, best)
      bi = s_sel(c, bi, k)
      best = s_sel(c, best, v)
    out[idx] = bi
  return out


def _sort(ctx, e, ins):
  if all(all_concrete(a) for a in ins):
    arrs = [jp.asarray(_concrete(a, v.aval.dtype)) for a, v in zip(ins, e.invars)]
    outs = e.primitive.bind(*arrs, **e.params)
    return [to_obj(np.asarray(o)) for o in outs]
  raise SXUnsupported('sort on symbolic values')


def _det_adj(M):
  """exact determinant and adjugate of a small object matrix by cofactor expansion (memoised minors)"""
  n = M.shape[0]
  from functools import lru_cache

  @lru_cache(maxsize=None)
  def minor(rows, cols):
    if len(rows) == 0:
      return 1
    r = rows[0]
    acc = 0
    for j, c in enumerate(cols):
      m = M[r, c]
      if isc(m) and m == 0:
        continue
      sub = minor(rows[1:], cols[:j] + cols[j + 1:])
      t = s_mul(m, sub)
      acc = s_add(acc, t) if j % 2 == 0 else s_sub(acc, t)
    return acc
  allr = tuple(range(n))
  det = minor(allr, allr)
  adj = np.empty((n, n), dtype=object)
  for i in range(n):
    for j in range(n):
      rows = tuple(r for r in allr if r != j)
      cols = tuple(c for c in allr if c != i)
      v = minor(rows, cols)
      adj[i, j] = v if (i + j) % 2 == 0 else s_neg(v)
  return det, adj


class Opaque:
  """placeholder cell that may be moved around but not computed with"""

  def __init__(self, what):
    self.what = what

  def _no(self, *a, **k):
    raise SXUnsupported('arithmetic on ' + self.what)
  __add__ = __radd__ = __sub__ = __rsub__ = __mul__ = __rmul__ = __truediv__ = __rtruediv__ = __neg__ = __lt__ = __le__ = __gt__ = __ge__ = _no


def simp_cell(v):
  """polynomial normalisation of one cell (z3 simplify, sum-of-monomials); numerals come back as exact python numbers"""
  if isc(v):
    return v
  t = z3.simplify(v, som=True)
  if z3.is_rational_value(t):
    return num(Fraction(t.numerator_as_long(), t.denominator_as_long()))
  if z3.is_int_value(t):
    return t.as_long()
  return t


def _gauss_solve(A, B):
  """exact solution of A X = B over object cells (Gaussian elimination, first non-zero-looking pivot; definedness of pivots is the SPD obligation)"""
  n = A.shape[0]
  A = ew(simp_cell, 1)(A)
  X = ew(simp_cell, 1)(B).reshape(n, -1)
  for c in range(n):
    piv = None
    for r in range(c, n):
      if not (isc(A[r, c]) and A[r, c] == 0):
        piv = r
        break
    if piv is None:
      raise SXUnsupported('singular matrix in linear solve')
    if piv != c:
      A[[c, piv]] = A[[piv, c]]
      X[[c, piv]] = X[[piv, c]]
    for r in range(c + 1, n):
      if isc(A[r, c]) and A[r, c] == 0:
        continue
      f = s_div(A[r, c], A[c, c])
      for k in range(c, n):
        A[r, k] = s_sub(A[r, k], s_mul(f, A[c, k]))
      for k in range(X.shape[1]):
        X[r, k] = s_sub(X[r, k], s_mul(f, X[c, k]))
  for c in range(n - 1, -1, -1):
    for k in range(X.shape[1]):
      acc = X[c, k]
      for j in range(c + 1, n):
        acc = s_sub(acc, s_mul(A[c, j], X[j, k]))
      X[c, k] = s_div(acc, A[c, c])
  return X.reshape(B.shape)


def _custom_linear_solve(ctx, e, ins):
  """jax.scipy.linalg.solve: the matrix is recovered from the `matvec` jaxpr on basis vectors and A x = b is solved exactly
  (for the SPD matrices brax passes the Cholesky-based solve computes exactly this)"""
  p = e.params
  cl = p['const_lengths']
  n_mv = cl.matvec
  mv_consts = ins[:n_mv]
  nconst = cl.matvec + cl.vecmat + cl.solve + cl.transpose_solve
  bs = ins[nconst:]
  if len(bs) != 1:
    raise SXUnsupported('custom_linear_solve with several right-hand sides')
  b = bs[0]
  mv = p['jaxprs'].matvec

  def apply_mv(X):
    return eval_jaxpr(ctx, mv.jaxpr, mv.consts, *mv_consts, X)[0]

  def zeros(shape):
    z = np.empty(shape, dtype=object)
    for idx in np.ndindex(*shape):
      z[idx] = 0
    return z
  iszero = lambda v: isc(v) and v == 0
  if b.ndim == 1:
    n = b.shape[0]
    A = np.empty((n, n), dtype=object)
    for k in range(n):
      ek = zeros(b.shape)
      ek[k] = 1
      A[:, k] = apply_mv(ek)
    ctx.stubs.add('jax.scipy.linalg.solve(assume_a=pos) interpreted as the exact solution of A x = b (Gaussian elimination on the terms)')
    return [_gauss_solve(A, b)]
  if b.ndim != 2:
    raise SXUnsupported('custom_linear_solve with batched operand')
  # 2-D operand: find out whether right-hand sides are stored as columns (A X = B) or as rows (X A^T = B)
  probe = zeros(b.shape)
  if b.shape[1] > 1:
    probe[0, 1] = 1
  else:
    probe[0, 0] = 1
  r = apply_mv(probe)
  row_layout = all(iszero(r[i, j]) for i in range(1, b.shape[0]) for j in range(b.shape[1])) and b.shape[1] > 1 and not all(
      iszero(r[i, j]) for i in range(b.shape[0]) for j in range(b.shape[1]) if j != 1)
  if b.shape[1] > 1 and not row_layout and not all(iszero(r[i, j]) for i in range(b.shape[0]) for j in range(b.shape[1]) if j != 1):
    raise SXUnsupported('custom_linear_solve: cannot determine operand layout')
  if row_layout:
    n = b.shape[1]
    A = np.empty((n, n), dtype=object)
    for k in range(n):
      ek = zeros(b.shape)
      ek[0, k] = 1
      A[:, k] = apply_mv(ek)[0, :]          # e_k^T A^T = (A e_k)^T
    X = _gauss_solve(A, b.T.copy()).T
  else:
    n = b.shape[0]
    A = np.empty((n, n), dtype=object)
    for k in range(n):
      ek = zeros(b.shape)
      ek[k, 0] = 1
      A[:, k] = apply_mv(ek)[:, 0]
    X = _gauss_solve(A, b)
  ctx.stubs.add('jax.scipy.linalg.solve(assume_a=pos) interpreted as the exact solution of A x = b (Gaussian elimination on the terms)')
  return [X]


class CholFactor:
  """token standing for chol(M): carried through the two triangular solves (DESIGN 1.1)"""

  def __init__(self, M):
    self.M = M
    self.stage = 0


def _cholesky(ctx, e, ins):
  M = ins[0]
  if M.ndim != 2:
    raise SXUnsupported('batched cholesky')
  n = M.shape[0]
  if all_concrete(M):
    # exact LDL is not rational in general; use sqrt through ctx
    pass
  # symbolic Cholesky-Banachiewicz with sqrt through ctx (exact; sqrt folded where possible)
  L = np.empty((n, n), dtype=object)
  for i in range(n):
    for j in range(n):
      L[i, j] = 0
  for i in range(n):
    for j in range(i + 1):
      acc = M[i, j] if e.params.get('symmetrize_input', True) is False else s_div(s_add(M[i, j], M[j, i]), 2)
      for k in range(j):
        acc = s_sub(acc, s_mul(L[i, k], L[j, k]))
      if i == j:
        L[i, j] = ctx.sqrt(acc)
      else:
        L[i, j] = s_div(acc, L[j, j])
  return L


def _triangular_solve(ctx, e, ins):
  p = e.params
  A, B = ins
  if A.ndim != 2:
    raise SXUnsupported('batched triangular_solve')
  lower, left, ta, unit = p['lower'], p['left_side'], p['transpose_a'], p['unit_diagonal']
  tname = getattr(ta, 'name', str(ta))
  trans = tname not in ('NO_TRANSPOSE', '0')
  if not left:
    # X A = B  <=>  A^T X^T = B^T
    A = A.T
    lower = not lower
    Bm = B.T
  else:
    Bm = B
  if trans:
    A = A.T
    lower = not lower
  n = A.shape[0]
  Bm2 = Bm.reshape(n, -1)
  X = np.empty(Bm2.shape, dtype=object)
  order = range(n) if lower else range(n - 1, -1, -1)
  for c in range(Bm2.shape[1]):
    for i in order:
      acc = Bm2[i, c]
      ks = range(i) if lower else range(i + 1, n)
      for k in ks:
        acc = s_sub(acc, s_mul(A[i, k], X[k, c]))
      X[i, c] = acc if unit else s_div(acc, A[i, i])
  X = X.reshape(Bm.shape)
  return X.T if not left else X


# --------------------------------------------------------------------------- PRNG stubs

def _key_id(a):
  return '|'.join(str(v) if isc(v) else 'T%d' % v.get_id() for v in a.reshape(-1))


class KeyCell:
  """a concrete PRNG key (wraps the real jax key scalar)"""

  def __init__(self, k):
    self.k = k

  def __repr__(self):
    return 'Key(%s)' % (jax.random.key_data(self.k).tolist(),)


def _is_key_aval(av):
  try:
    return jax.dtypes.issubdtype(av.dtype, jax.dtypes.prng_key)
  except Exception:
    return False


def _to_jax(a, av):
  if _is_key_aval(av):
    flat = [c.k for c in a.reshape(-1)]
    return jp.stack(flat).reshape(a.shape) if a.shape else flat[0]
  return jp.asarray(_concrete(a, av.dtype))


def _from_jax(o, av):
  if _is_key_aval(av):
    out = np.empty(o.shape, dtype=object)
    for idx in np.ndindex(*o.shape):
      out[idx] = KeyCell(o[idx])
    return out
  return to_obj(np.asarray(o))


def _concrete_inputs(ins, e):
  for a, v in zip(ins, e.invars):
    for c in a.reshape(-1):
      if not isc(c):
        return False
      if _is_key_aval(v.aval) and not isinstance(c, KeyCell):
        return False
  return True


def _run_real(e, ins):
  arrs = [_to_jax(a, v.aval) for a, v in zip(ins, e.invars)]
  outs = e.primitive.bind(*arrs, **e.params)
  if not e.primitive.multiple_results:
    outs = [outs]
  res = [_from_jax(o, v.aval) for o, v in zip(outs, e.outvars)]
  return res if e.primitive.multiple_results else res[0]


def _random_stub(ctx, e, ins):
  """a jitted jax.random sampler: output = fresh symbolic values, a function of the key cells only (environment stub)"""
  nm = e.params.get('name')
  if _concrete_inputs(ins, e):
    return _run_closed(ctx, _sub_jaxpr(e.params), ins)
  ctx.stubs.add('jax.random.%s -> fresh values determined by the key' % nm)
  outs = []
  for k, ov in enumerate(e.outvars):
    kid = (nm, _key_id(ins[0]), tuple(ov.aval.shape), k, tuple(_key_id(a) for a in ins[1:]))
    if kid not in ctx.rand:
      shape = tuple(ov.aval.shape)
      a = np.empty(shape, dtype=object)
      sort = 'int' if ov.aval.dtype.kind in 'iu' else 'real'
      for idx in np.ndindex(*shape):
        a[idx] = ctx.fresh('rnd%s' % nm, sort)
      if nm == '_uniform':
        lo, hi = ins[1].reshape(-1)[0], ins[2].reshape(-1)[0]
        for v in a.reshape(-1):
          ctx.side += [lift(v) >= lift(lo), lift(v) < lift(hi)] if not (isc(lo) and isc(hi) and lo == hi) else []
      if nm == '_randint':
        lo, hi = ins[1], ins[2]
        lo_b = np.broadcast_to(lo, shape) if lo.size > 1 else None
        for idx in np.ndindex(*shape):
          l = lo[idx] if lo.shape == shape else lo.reshape(-1)[0]
          h = hi[idx] if hi.shape == shape else hi.reshape(-1)[0]
          # jax.random.randint returns lo when hi <= lo; otherwise a value in [lo, hi)
          ctx.side.append(z3.If(lift(h, a[idx]) > lift(l, a[idx]), z3.And(a[idx] >= lift(l, a[idx]), a[idx] < lift(h, a[idx])),
                                a[idx] == lift(l, a[idx])))
      ctx.rand[kid] = a
    outs.append(ctx.rand[kid])
  return outs


def _random_prim(ctx, e, name, ins):
  if _concrete_inputs(ins, e):
    return _run_real(e, ins)
  ctx.stubs.add('PRNG primitive %s -> fresh values determined by its inputs' % name)
  outs = []
  for k, ov in enumerate(e.outvars):
    shape = tuple(ov.aval.shape)
    dt = ov.aval.dtype
    # key-typed outputs have extended dtypes; represent keys as int cells
    kid = (name, tuple(_key_id(a) for a in ins), shape, k, str(e.params.get('shape')), str(e.params.get('bit_width')))
    if kid not in ctx.rand:
      try:
        kind = np.dtype(dt).kind
      except TypeError:
        kind = 'key'
      a = np.empty(shape, dtype=object)
      for idx in np.ndindex(*shape):
        a[idx] = ctx.fresh('key' if kind == 'key' else 'bits', 'int')
        if kind == 'u':
          ctx.side += [a[idx] >= 0, a[idx] < 2 ** (8 * np.dtype(dt).itemsize)]
      ctx.rand[kid] = a
    outs.append(ctx.rand[kid])
  return outs if e.primitive.multiple_results else outs[0]


# --------------------------------------------------------------------------- front end

def _leaf(x):
  return isinstance(x, (np.ndarray, Typed))


def run(ctx, f, *args):
  """Trace f(*args) to a jaxpr with placeholders for the leaves and interpret it symbolically.

  args: pytrees; leaves that are numpy object arrays or Typed are symbolic/exact inputs, other leaves are
  passed to jax as ordinary (concrete, but still traced) arrays.  Returns (outputs pytree, closed jaxpr).
  """
  leaves, tree = jax.tree.flatten(args, is_leaf=_leaf)
  ph, vals = [], []
  for l in leaves:
    if isinstance(l, Typed):
      ph.append(jp.zeros(l.shape, dtype=l.dtype))
      vals.append(l.arr)
    elif isinstance(l, np.ndarray) and l.dtype == object:
      ph.append(jp.zeros(l.shape, dtype=_infer_dtype(l)))
      vals.append(l)
    else:
      a = jp.asarray(l)
      ph.append(a)
      vals.append(np.asarray(a))

  def g(*ls):
    return f(*jax.tree.unflatten(tree, ls))
  cj = jax.make_jaxpr(g)(*ph)
  outs = eval_jaxpr(ctx, cj.jaxpr, cj.consts, *vals)
  out_tree = jax.tree.structure(jax.eval_shape(g, *ph))
  return jax.tree.unflatten(out_tree, outs), cj


def n_eqns(jaxpr):
  """equation count including nested jaxprs"""
  n = 0
  for e in jaxpr.eqns:
    n += 1
    for v in e.params.values():
      vs = v if isinstance(v, (list, tuple)) else [v]
      for w in vs:
        j = getattr(w, 'jaxpr', None)
        if j is not None and hasattr(j, 'eqns'):
          n += n_eqns(j)
        elif hasattr(w, 'eqns'):
          n += n_eqns(w)
  return n


# --------------------------------------------------------------------------- float evaluation of terms (validation / replay)

def evalf(ctx, terms, env):
  """evaluate z3 terms / constants to python floats.  env: {var name: float}.  Abstracted sqrt / sin / cos /
  uninterpreted applications are evaluated through their recorded argument terms (the real math functions)."""
  defs = {}
  for k, (y, a) in ctx.sqrts.items():
    defs[y.decl().name()] = ('sqrt', [a])
  for k, (s, c, a) in ctx.trig.items():
    if z3.is_const(s) and z3.is_const(c):
      defs[s.decl().name()] = ('sin', [a])
      defs[c.decl().name()] = ('cos', [a])
  for tn, a in ctx.tdefs.items():
    defs[tn] = ('tanhalf', [a])
  for k, (v, nm, xs) in ctx.uf.items():
    defs[v.decl().name()] = (nm, xs)
  memo = {}
  fns = {'tanhalf': lambda a: math.tan(a / 2),'sqrt': lambda a: math.sqrt(max(a, 0.0)), 'sin': math.sin, 'cos': math.cos, 'atan2': math.atan2,
         'acos': lambda a: math.acos(min(1.0, max(-1.0, a))), 'asin': lambda a: math.asin(min(1.0, max(-1.0, a))),
         'exp': math.exp, 'log': math.log, 'tanh': math.tanh, 'pow': math.pow, 'log1p': math.log1p,
         'logistic': lambda a: 1 / (1 + math.exp(-a)), 'atan': math.atan, 'tan': math.tan, 'expm1': math.expm1,
         'erf': math.erf, 'exp2': lambda a: 2.0 ** a, 'atanh': math.atanh, 'asinh': math.asinh, 'sinh': math.sinh, 'cosh': math.cosh}

  def ev(t0):
    stack = [t0]
    while stack:
      t = stack[-1]
      i = t.get_id()
      if i in memo:
        stack.pop()
        continue
      if z3.is_rational_value(t):
        memo[i] = t.numerator_as_long() / t.denominator_as_long()
        stack.pop()
        continue
      if z3.is_int_value(t):
        memo[i] = t.as_long()
        stack.pop()
        continue
      if z3.is_true(t):
        memo[i] = True
        stack.pop()
        continue
      if z3.is_false(t):
        memo[i] = False
        stack.pop()
        continue
      k = t.decl().kind()
      if k == z3.Z3_OP_UNINTERPRETED and t.num_args() == 0:
        nm = t.decl().name()
        if nm in env:
          memo[i] = env[nm]
          stack.pop()
          continue
        if nm in defs:
          fn, xs = defs[nm]
          pend = [x for x in xs if x.get_id() not in memo]
          if pend:
            stack.extend(pend)
            continue
          memo[i] = fns[fn](*[memo[x.get_id()] for x in xs])
          stack.pop()
          continue
        raise KeyError('no value for ' + nm)
      ch = t.children()
      if k == z3.Z3_OP_ITE:
        c = ch[0]
        if c.get_id() not in memo:
          stack.append(c)
          continue
        br = ch[1] if memo[c.get_id()] else ch[2]
        if br.get_id() not in memo:
          stack.append(br)
          continue
        memo[i] = memo[br.get_id()]
        stack.pop()
        continue
      pend = [c for c in ch if c.get_id() not in memo]
      if pend:
        stack.extend(pend)
        continue
      v = [memo[c.get_id()] for c in ch]
      if k == z3.Z3_OP_ADD:
        r = sum(v)
      elif k == z3.Z3_OP_SUB:
        r = v[0] - sum(v[1:])
      elif k == z3.Z3_OP_MUL:
        r = 1
        for x in v:
          r = r * x
      elif k == z3.Z3_OP_DIV:
        r = v[0] / v[1] if v[1] != 0 else float('nan')
      elif k == z3.Z3_OP_IDIV:
        r = v[0] // v[1]
      elif k == z3.Z3_OP_MOD:
        r = v[0] % abs(v[1])
      elif k == z3.Z3_OP_UMINUS:
        r = -v[0]
      elif k == z3.Z3_OP_POWER:
        r = v[0] ** v[1]
      elif k == z3.Z3_OP_TO_REAL:
        r = v[0]
      elif k == z3.Z3_OP_TO_INT:
        r = math.floor(v[0])
      elif k == z3.Z3_OP_LE:
        r = v[0] <= v[1]
      elif k == z3.Z3_OP_LT:
        r = v[0] < v[1]
      elif k == z3.Z3_OP_GE:
        r = v[0] >= v[1]
      elif k == z3.Z3_OP_GT:
        r = v[0] > v[1]
      elif k == z3.Z3_OP_EQ:
        r = v[0] == v[1]
      elif k == z3.Z3_OP_DISTINCT:
        r = v[0] != v[1]
      elif k == z3.Z3_OP_AND:
        r = all(v)
      elif k == z3.Z3_OP_OR:
        r = any(v)
      elif k == z3.Z3_OP_NOT:
        r = not v[0]
      elif k == z3.Z3_OP_IFF:
        r = v[0] == v[1]
      elif k == z3.Z3_OP_XOR:
        r = v[0] != v[1]
      elif k == z3.Z3_OP_IMPLIES:
        r = (not v[0]) or v[1]
      else:
        raise SXUnsupported('evalf: ' + str(t.decl()))
      memo[i] = r
      stack.pop()
    return memo[t0.get_id()]

  def one(x):
    if isc(x):
      return float(x) if not isinstance(x, bool) else x
    return ev(x)
  if isinstance(terms, np.ndarray):
    out = np.empty(terms.shape, dtype=object)
    for idx in np.ndindex(*terms.shape):
      out[idx] = one(terms[idx])
    try:
      return out.astype(float)
    except (TypeError, ValueError):
      return out
  return one(terms)


def free_vars(terms):
  """names (and sorts) of uninterpreted constants in an iterable of terms"""
  seen, out, stack = set(), {}, []
  for t in terms:
    if not isc(t):
      stack.append(t)
  while stack:
    t = stack.pop()
    i = t.get_id()
    if i in seen:
      continue
    seen.add(i)
    if z3.is_const(t) and t.decl().kind() == z3.Z3_OP_UNINTERPRETED:
      out[t.decl().name()] = t
    else:
      stack.extend(t.children())
  return out


def dag_count(terms, cap=10**9):
  """number of distinct AST nodes reachable from the given z3 terms (stops counting at cap)"""
  seen = set()
  stack = [t for t in terms if not isc(t)]
  while stack:
    t = stack.pop()
    i = t.get_id()
    if i in seen:
      continue
    seen.add(i)
    if len(seen) >= cap:
      return cap
    stack.extend(t.children())
  return len(seen)
