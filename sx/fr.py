"""Denominator clearing: rewrite z3 real terms / formulas with division into division-free polynomial ones.

A term t is represented as (N, D) with t == N / prod(f^k for f,k in D), the f being atomic denominator terms
(assumed non-zero: each is returned as a definedness obligation by `factors()`).  Equalities are cross-multiplied,
order comparisons are multiplied by the odd-multiplicity factors twice (sign preserving).
"""
from collections import Counter

import z3


class Fr:
  def __init__(self, sqrts=None):
    """sqrts: optional {y: a} (z3 const y standing for sqrt(a)); even powers of y in cleared denominators are replaced by a"""
    self.memo = {}
    self.fact = {}     # id -> term
    self.keep = []
    self.sqrts = {}
    for y, a in (sqrts or {}).items():
      self.sqrts[y.get_id()] = (y, a)
      self.keep += [y, a]

  @classmethod
  def for_ctx(cls, ctx):
    return cls({y: a for (y, a) in ctx.sqrts.values()})

  def factors(self):
    return list(self.fact.values())

  def dterm(self, d):
    t = None
    for k, p in d.items():
      f = self.fact[k]
      sq = f * f
      pw = None
      for _ in range(p // 2):
        pw = sq if pw is None else pw * sq
      if p % 2:
        pw = f if pw is None else pw * f
      if pw is not None:
        t = pw if t is None else t * pw
    return t if t is not None else z3.RealVal(1)

  def _elim_sqrt(self, f, depth=0):
    """replace y*y by a for registered square roots, then clear any denominators this re-introduces"""
    if not self.sqrts or depth > 3:
      return f
    subs = [(y * y, a) for (y, a) in self.sqrts.values()]
    f2 = z3.substitute(f, *subs)
    if f2.eq(f):
      return f
    sub = Fr({y: a for (y, a) in self.sqrts.values()})
    r = sub.formula(f2, _top=False)
    for k, v in sub.fact.items():
      self.fact.setdefault(k, v)
    self.keep += sub.keep
    return sub._elim_sqrt(r, depth + 1) if depth < 3 else r

  @staticmethod
  def lcm(d1, d2):
    d = Counter(d1)
    for k, p in d2.items():
      if p > d[k]:
        d[k] = p
    return d

  def scale(self, n, d, dl):
    diff = Counter({k: dl[k] - d.get(k, 0) for k in dl if dl[k] - d.get(k, 0) > 0})
    return n if not diff else n * self.dterm(diff)

  def go(self, e):
    i = e.get_id()
    if i in self.memo:
      return self.memo[i]
    r = self._go(e)
    self.memo[i] = r
    self.keep.append(e)
    return r

  def _atom(self, n):
    ns = z3.simplify(n)
    if z3.is_rational_value(ns):
      return ns, None
    # split off a numeric coefficient so that c*x and x share one factor
    self.fact.setdefault(ns.get_id(), ns)
    self.keep.append(ns)
    return None, ns.get_id()

  def _go(self, e):
    if z3.is_rational_value(e) or z3.is_int_value(e):
      return (e, Counter())
    if z3.is_const(e):
      return (e, Counter())
    k = e.decl().kind()
    ch = e.children()
    if k in (z3.Z3_OP_ADD, z3.Z3_OP_SUB):
      parts = [self.go(c) for c in ch]
      dl = Counter()
      for _, d in parts:
        dl = self.lcm(dl, d)
      ns = [self.scale(n, d, dl) for n, d in parts]
      n = ns[0]
      for m in ns[1:]:
        n = n + m if k == z3.Z3_OP_ADD else n - m
      return (n, dl)
    if k == z3.Z3_OP_UMINUS:
      n, d = self.go(ch[0])
      return (-n, d)
    if k == z3.Z3_OP_MUL:
      # peephole: (x / T) * T -> x   (T non-zero is still recorded as a definedness factor)
      ch = list(ch)
      changed = True
      while changed:
        changed = False
        for i, c in enumerate(ch):
          if z3.is_app(c) and c.decl().kind() == z3.Z3_OP_DIV and not z3.is_rational_value(c.children()[1]):
            den = c.children()[1]
            j = next((j for j, o in enumerate(ch) if j != i and o.get_id() == den.get_id()), None)
            if j is not None:
              n2, _ = self.go(den)
              self._atom(n2)          # keep T as a definedness factor
              ch[i] = c.children()[0]
              del ch[j]
              changed = True
              break
      if not ch:
        return (z3.RealVal(1), Counter())
      n, d = self.go(ch[0])
      d = Counter(d)
      for c in ch[1:]:
        n2, d2 = self.go(c)
        n = n * n2
        d = d + d2
      return (n, d)
    if k == z3.Z3_OP_DIV:
      n1, d1 = self.go(ch[0])
      n2, d2 = self.go(ch[1])
      c, fid = self._atom(n2)
      top = n1 * self.dterm(d2) if d2 else n1
      if fid is None:
        return (top / c, Counter(d1))
      return (top, d1 + Counter({fid: 1}))
    if k == z3.Z3_OP_ITE:
      c = self.formula(ch[0])
      n1, d1 = self.go(ch[1])
      n2, d2 = self.go(ch[2])
      dl = self.lcm(d1, d2)
      return (z3.If(c, self.scale(n1, d1, dl), self.scale(n2, d2, dl)), dl)
    if k == z3.Z3_OP_TO_REAL:
      return (e, Counter())
    if k == z3.Z3_OP_POWER:
      if z3.is_rational_value(ch[1]) and ch[1].denominator_as_long() == 1 and 0 <= ch[1].numerator_as_long() <= 8:
        p = ch[1].numerator_as_long()
        n, d = self.go(ch[0])
        nn = z3.RealVal(1)
        dd = Counter()
        for _ in range(p):
          nn = nn * n
          dd = dd + d
        return (nn, dd)
    raise NotImplementedError('fr: %s' % e.decl())

  def _odd(self, d):
    return Counter({k: 1 for k, p in d.items() if p % 2 == 1})

  def formula(self, f, _top=True):
    """division-free formula equivalent to f when all factors are non-zero"""
    if isinstance(f, bool):
      return z3.BoolVal(f)
    i = ('F', f.get_id())
    if i in self.memo:
      return self.memo[i]
    r = self._formula(f)
    if _top and self.sqrts:
      r = self._elim_sqrt(r)
    self.memo[i] = r
    self.keep.append(f)
    return r

  def _formula(self, f):
    if z3.is_true(f) or z3.is_false(f):
      return f
    k = f.decl().kind()
    ch = f.children()
    if k == z3.Z3_OP_AND:
      return z3.And([self.formula(c) for c in ch])
    if k == z3.Z3_OP_OR:
      return z3.Or([self.formula(c) for c in ch])
    if k == z3.Z3_OP_NOT:
      return z3.Not(self.formula(ch[0]))
    if k == z3.Z3_OP_IMPLIES:
      return z3.Implies(self.formula(ch[0]), self.formula(ch[1]))
    if k in (z3.Z3_OP_IFF,) or (k == z3.Z3_OP_EQ and z3.is_bool(ch[0])):
      return self.formula(ch[0]) == self.formula(ch[1])
    if k == z3.Z3_OP_XOR:
      return z3.Xor(self.formula(ch[0]), self.formula(ch[1]))
    if k == z3.Z3_OP_ITE and z3.is_bool(f):
      return z3.If(self.formula(ch[0]), self.formula(ch[1]), self.formula(ch[2]))
    if k in (z3.Z3_OP_EQ, z3.Z3_OP_DISTINCT, z3.Z3_OP_LE, z3.Z3_OP_LT, z3.Z3_OP_GE, z3.Z3_OP_GT):
      if ch[0].sort() == z3.IntSort() and ch[1].sort() == z3.IntSort():
        return f
      n1, d1 = self.go(ch[0])
      n2, d2 = self.go(ch[1])
      dl = self.lcm(d1, d2)
      a, b = self.scale(n1, d1, dl), self.scale(n2, d2, dl)
      if k == z3.Z3_OP_EQ:
        return a == b
      if k == z3.Z3_OP_DISTINCT:
        return a != b
      od = self._odd(dl)
      if od:
        s = self.dterm(od)
        a, b = a * s, b * s
      return {z3.Z3_OP_LE: a <= b, z3.Z3_OP_LT: a < b, z3.Z3_OP_GE: a >= b, z3.Z3_OP_GT: a > b}[k]
    if z3.is_const(f):
      return f
    raise NotImplementedError('fr formula: %s' % f.decl())

  def eq(self, a, b):
    return self.formula(a == b)
