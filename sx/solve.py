"""Obligations and the solver pool.

An obligation is `assumptions => goal`; the query sent to the solver is `assumptions AND NOT goal`, serialised as
SMT-LIB2 text and decided in a worker process (z3 5.1 python wheel) under a hard wall-clock cap.
`unsat` = holds for every value; `sat` = counterexample model returned; anything else is inconclusive.
"""
import json
import os
import queue
import subprocess
import sys
import tempfile
import threading
import time

import z3

HERE = os.path.dirname(os.path.abspath(__file__))
ROOT = os.path.dirname(HERE)
SCRATCH = os.path.join(ROOT, '.scratch')
PORTFOLIO = int(os.environ.get('VERIF_PORTFOLIO', '3'))      # variants (nlsat variable orders) per obligation whose cap is >= 20 s


class Ob:
  def __init__(self, name, assume, goal, expect='unsat', core=True, timeout=60, tactic=None, meta=None, kind='goal'):
    """goal: z3 Bool to prove under `assume` (list of z3 Bool).  expect='sat' marks vacuity / mutation twins:
    then `goal` is ignored if None and the query is just the satisfiability of `assume`."""
    self.name = name
    self.assume = [a for a in assume if not (isinstance(a, bool) and a)]
    self.goal = goal
    self.expect = expect
    self.core = core
    self.timeout = timeout
    self.tactic = tactic
    self.meta = meta or {}
    self.kind = kind
    self.status = None
    self.time = 0.0
    self.model = None
    self.smt2 = None
    self.trivial = False

  def build(self):
    g = self.goal
    parts = list(self.assume)
    if g is not None:
      if isinstance(g, bool):
        if g:
          # syntactically discharged (both sides produced the same term)
          self.trivial = True
          parts.append(z3.BoolVal(False))
        else:
          parts.append(z3.BoolVal(True))
      else:
        parts.append(z3.Not(g))
    # serialise without going through Solver.add (which internalises the formula and can take minutes on very large terms)
    fs = [a if not isinstance(a, bool) else z3.BoolVal(a) for a in parts]
    if not fs:
      fs = [z3.BoolVal(True)]
    if os.environ.get('VERIF_OB_VIA_SOLVER'):
      s_ = z3.Solver()
      for a in fs:
        s_.add(a)
      self.smt2 = s_.to_smt2()
      return self.smt2
    ctx = fs[0].ctx
    n = len(fs) - 1
    arr = (z3.Ast * n)()
    for i in range(n):
      arr[i] = fs[i].as_ast()
    self.smt2 = z3.Z3_benchmark_to_smtlib_string(ctx.ref(), 'obligation', '', 'unknown', '', n, arr, fs[-1].as_ast())
    return self.smt2

  def ok(self):
    return self.status == self.expect


class _Worker:
  def __init__(self):
    self.p = None

  def start(self):
    env = dict(os.environ)
    self.p = subprocess.Popen([sys.executable, os.path.join(HERE, 'worker.py')], stdin=subprocess.PIPE,
                              stdout=subprocess.PIPE, stderr=subprocess.DEVNULL, text=True, env=env, bufsize=1)

  def kill(self):
    if self.p is not None:
      try:
        self.p.kill()
        self.p.wait(timeout=5)
      except Exception:
        pass
      self.p = None

  def solve(self, path, timeout, tactic, grace=5.0, incremental=False, mode=None, params=None):
    if self.p is None or self.p.poll() is not None:
      self.start()
    req = json.dumps({'path': path, 'timeout': timeout, 'tactic': tactic, 'incremental': incremental, 'mode': mode, 'params': params})
    t0 = time.time()
    result = {}

    def rd():
      try:
        line = self.p.stdout.readline()
        result['line'] = line
      except Exception as ex:  # pragma: no cover
        result['err'] = str(ex)
    try:
      self.p.stdin.write(req + '\n')
      self.p.stdin.flush()
    except Exception:
      self.kill()
      return {'status': 'error', 'time': time.time() - t0, 'detail': 'worker pipe'}
    th = threading.Thread(target=rd, daemon=True)
    th.start()
    th.join(timeout + grace)
    if th.is_alive() or not result.get('line'):
      alive = th.is_alive()
      self.kill()
      return {'status': 'timeout' if alive else 'error', 'time': time.time() - t0}
    try:
      r = json.loads(result['line'])
    except Exception:
      self.kill()
      return {'status': 'error', 'time': time.time() - t0, 'detail': result.get('line', '')[:200]}
    r['time'] = time.time() - t0
    return r


def discharge(obs, workers=None, log=None):
  """solve all obligations in parallel; fills ob.status/time/model. Returns obs."""
  workers = workers or min(16, os.cpu_count() or 4)
  os.makedirs(SCRATCH, exist_ok=True)
  tmpd = tempfile.mkdtemp(prefix='obs', dir=SCRATCH)
  q = queue.Queue()
  n = 0
  for i, ob in enumerate(obs):
    if ob.smt2 is None:
      ob.build()
    if ob.trivial and ob.expect == 'unsat':
      ob.status, ob.time = 'unsat', 0.0
      continue
    path = os.path.join(tmpd, '%d.smt2' % i)
    with open(path, 'w') as f:
      f.write(ob.smt2)
    k = max(1, int(ob.meta.get('portfolio') or (PORTFOLIO if (ob.timeout >= 20 and ob.core and ob.kind != 'lemma') else 1)))
    ob._pending, ob._done = k, False
    for vi in range(k):
      # portfolio: the same query under different nlsat variable orders, first decisive answer wins (nlsat run times on one formula vary by 10x with the order)
      q.put((ob, path, None if vi == 0 else {'nlsat.shuffle_vars': True, 'nlsat.seed': vi}))
      n += 1
  lock = threading.Lock()
  running = {}

  def loop():
    w = _Worker()
    while True:
      try:
        ob, path, params = q.get_nowait()
      except queue.Empty:
        break
      with lock:
        if ob._done:
          ob._pending -= 1
          continue
        running.setdefault(id(ob), []).append(w)
      r = w.solve(path, ob.timeout, ob.tactic, params=params)
      with lock:
        running[id(ob)].remove(w)
        ob._pending -= 1
        if ob._done:
          continue
        st = r.get('status', 'error')
        decisive = st in ('unsat', 'sat')
        if decisive or ob.status is None or ob._pending == 0:
          if decisive or ob.status is None:
            ob.status = st
            ob.time = r.get('time', 0.0)
            ob.model = r.get('model')
            ob.detail = r.get('detail')
            ob.variant = params
        if decisive:
          ob._done = True
          for w2 in list(running.get(id(ob), [])):      # the other variants of this obligation are no longer needed: stop their solver processes
            w2.kill()
        if log and (decisive or ob._pending == 0):
          log(ob)
    w.kill()
  ths = [threading.Thread(target=loop, daemon=True) for _ in range(min(workers, max(n, 1)))]
  for t in ths:
    t.start()
  for t in ths:
    t.join()
  import shutil
  shutil.rmtree(tmpd, ignore_errors=True)
  return obs


def solve_local(assume, goal, timeout_ms=20000):
  """in-process query for small lemma obligations: returns 'unsat' | 'sat' | 'unknown'"""
  s = z3.Solver()
  s.set('timeout', timeout_ms)
  for a in assume:
    s.add(a)
  if goal is not None:
    s.add(z3.Not(goal) if not isinstance(goal, bool) else z3.BoolVal(not goal))
  return str(s.check())


def cvc5_check(smt2, timeout_s=30):
  """second opinion from cvc5 (python wheel) on an SMT-LIB2 text: 'unsat' | 'sat' | 'unknown' | 'error:...'"""
  code = (
      "import sys, cvc5\n"
      "from cvc5 import Kind\n"
      "txt=open(sys.argv[1]).read()\n"
      "s=cvc5.Solver(); s.setOption('tlimit', sys.argv[2]); s.setLogic('ALL')\n"
      "p=cvc5.InputParser(s); p.setStringInput(cvc5.InputLanguage.SMT_LIB_2_6, txt, 'ob')\n"
      "sm=p.getSymbolManager(); res=None\n"
      "while True:\n"
      "  c=p.nextCommand()\n"
      "  if c.isNull(): break\n"
      "  out=c.invoke(s, sm)\n"
      "  if 'sat' in str(out) or 'unknown' in str(out): res=str(out).strip()\n"
      "print('RESULT', res)\n")
  os.makedirs(SCRATCH, exist_ok=True)
  fd, path = tempfile.mkstemp(suffix='.smt2', dir=SCRATCH)
  with os.fdopen(fd, 'w') as f:
    f.write(smt2 if '(check-sat)' in smt2 else smt2 + '\n(check-sat)\n')
  try:
    r = subprocess.run([sys.executable, '-c', code, path, str(int(timeout_s * 1000))], capture_output=True, text=True,
                       timeout=timeout_s + 20)
    for line in r.stdout.splitlines():
      if line.startswith('RESULT'):
        return line.split(None, 1)[1].strip()
    return 'error:' + (r.stderr.strip().splitlines() or ['?'])[-1][:200]
  except subprocess.TimeoutExpired:
    return 'unknown'
  finally:
    try:
      os.unlink(path)
    except OSError:
      pass
