"""solver worker: reads {"path","timeout","tactic"} JSON lines, answers {"status","model"} JSON lines"""
import json
import sys
import z3


def val(v):
  try:
    if z3.is_rational_value(v):
      return '%d/%d' % (v.numerator_as_long(), v.denominator_as_long())
    if z3.is_int_value(v):
      return str(v.as_long())
    if z3.is_algebraic_value(v):
      return v.approx(30).as_decimal(30).rstrip('?')
    if z3.is_true(v):
      return 'true'
    if z3.is_false(v):
      return 'false'
  except Exception:
    pass
  return str(v)


DEFAULT_PARAMS = {'nlsat.shuffle_vars': False, 'nlsat.seed': 0, 'nlsat.reorder': True}


def main():
  for line in sys.stdin:
    line = line.strip()
    if not line:
      continue
    req = json.loads(line)
    out = {'status': 'error'}
    try:
      if req.get('mode') == 'fold':
        # decide a guard p under assumptions: the file holds the assumptions followed by p (last assertion).  Same sequence as the original in-process
        # folding: push, assert p, check (unsat -> p is false); pop, assert not p, check (unsat -> p is true)
        fs = list(z3.parse_smt2_file(req['path']))
        pre, pp = fs[:-1], fs[-1]
        s = z3.Solver()
        s.set('timeout', int(req['timeout'] * 1000))
        s.add(pre)
        s.push()
        s.add(pp)
        if s.check() == z3.unsat:
          out = {'status': 'false'}
        else:
          s.pop()
          s.add(z3.Not(pp))
          out = {'status': 'true' if s.check() == z3.unsat else 'undecided'}
        sys.stdout.write(json.dumps(out) + '\n')
        sys.stdout.flush()
        continue
      for k_, v_ in DEFAULT_PARAMS.items():
        z3.set_param(k_, v_)
      for k_, v_ in (req.get('params') or {}).items():      # portfolio variants: e.g. a different nlsat variable order
        z3.set_param(k_, v_)
      if req.get('tactic'):
        s = z3.Tactic(req['tactic']).solver()
      else:
        s = z3.Solver()
      s.set('timeout', int(req['timeout'] * 1000))
      s.from_file(req['path'])
      if req.get('incremental'):
        s.push()      # switches z3 to its incremental core (smt + nla) instead of the nlsat tactic: decides different (often more of the small guard) queries
      r = s.check()
      out['status'] = str(r)
      if r == z3.sat:
        m = s.model()
        out['model'] = {d.name(): val(m[d]) for d in m.decls() if d.arity() == 0}
      elif r == z3.unknown:
        out['detail'] = s.reason_unknown()
    except Exception as ex:
      out = {'status': 'error', 'detail': str(ex)[:300]}
    sys.stdout.write(json.dumps(out) + '\n')
    sys.stdout.flush()


if __name__ == '__main__':
  main()
