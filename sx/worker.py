"""solver worker: reads {"path","timeout","tactic"} JSON lines, answers {"status","model"} JSON lines"""
import json
import sys
import z3


def val(v):
  try:
    if z3.is_rational_value(v):
      return '%d/%d' % (v.numerator_as_long(), v.denominator_as_long())
    if z3.is_int_value(v):
      return str(v.as_long())
    if z3.is_algebraic_value(v):
      return v.approx(30).as_decimal(30).rstrip('?')
    if z3.is_true(v):
      return 'true'
    if z3.is_false(v):
      return 'false'
  except Exception:
    pass
  return str(v)


def main():
  for line in sys.stdin:
    line = line.strip()
    if not line:
      continue
    req = json.loads(line)
    out = {'status': 'error'}
    try:
      if req.get('tactic'):
        s = z3.Tactic(req['tactic']).solver()
      else:
        s = z3.Solver()
      s.set('timeout', int(req['timeout'] * 1000))
      s.from_file(req['path'])
      r = s.check()
      out['status'] = str(r)
      if r == z3.sat:
        m = s.model()
        out['model'] = {d.name(): val(m[d]) for d in m.decls() if d.arity() == 0}
      elif r == z3.unknown:
        out['detail'] = s.reason_unknown()
    except Exception as ex:
      out = {'status': 'error', 'detail': str(ex)[:300]}
    sys.stdout.write(json.dumps(out) + '\n')
    sys.stdout.flush()


if __name__ == '__main__':
  main()
