"""Reference rigid-body mechanics from first principles (NOT Featherstone's algorithms), as terms over SX cells.

Every configuration quantity is carried as a 2nd-order jet in time  a0 + a1 t + a2 t^2  along the motion q(t) = q + qd t with zero generalized
acceleration (free joint: constant world linear velocity and constant LOCAL angular velocity, MuJoCo's qvel convention).  From the jets of each
body's centre of mass and orientation:  v = a1, a = 2 a2, w(t) = 2 vec(Qdot Q*) (value and time derivative).
  mass matrix   M_ij = sum_b  m_b Jv_i.Jv_j + Jw_i^T I_w Jw_j  (+ armature on the diagonal),   J columns = the same jets with qd = e_i
  bias force    c_i  = sum_b  Jv_i.(m_b (a_b - g)) + Jw_i.(I_w wdot + w x I_w w)                (virtual power; includes gravity, as MuJoCo's qfrc_bias)
  passive force p_i  = -stiffness_i q_i - damping_i qd_i                                       (hinge / slide dofs)
Validated against real mujoco (mj_fullM, qfrc_bias, qfrc_passive) by `validate`.
"""
import math
from fractions import Fraction as F

import numpy as np

from sx import core
from sx.core import s_add, s_mul, s_neg, s_sub


class J:
  """jet of order 2 in t; coefficients are SX cells"""
  __slots__ = ('a',)

  def __init__(self, a0, a1=0, a2=0):
    self.a = (a0, a1, a2)


def jl(x):
  return x if isinstance(x, J) else J(x)


def add(x, y):
  x, y = jl(x), jl(y)
  return J(*(s_add(p, q) for p, q in zip(x.a, y.a)))


def sub(x, y):
  x, y = jl(x), jl(y)
  return J(*(s_sub(p, q) for p, q in zip(x.a, y.a)))


def neg(x):
  x = jl(x)
  return J(*(s_neg(p) for p in x.a))


def mul(x, y):
  x, y = jl(x), jl(y)
  a, b = x.a, y.a
  return J(s_mul(a[0], b[0]), s_add(s_mul(a[0], b[1]), s_mul(a[1], b[0])), s_add(s_add(s_mul(a[0], b[2]), s_mul(a[1], b[1])), s_mul(a[2], b[0])))


def vadd(u, v):
  return [add(x, y) for x, y in zip(u, v)]


def vsub(u, v):
  return [sub(x, y) for x, y in zip(u, v)]


def vscale(k, u):
  return [mul(k, x) for x in u]


def dot(u, v):
  r = J(0)
  for x, y in zip(u, v):
    r = add(r, mul(x, y))
  return r


def cross(a, b):
  return [sub(mul(a[1], b[2]), mul(a[2], b[1])), sub(mul(a[2], b[0]), mul(a[0], b[2])), sub(mul(a[0], b[1]), mul(a[1], b[0]))]


def qmul(u, v):
  return [sub(sub(sub(mul(u[0], v[0]), mul(u[1], v[1])), mul(u[2], v[2])), mul(u[3], v[3])),
          sub(add(add(mul(u[0], v[1]), mul(u[1], v[0])), mul(u[2], v[3])), mul(u[3], v[2])),
          add(add(sub(mul(u[0], v[2]), mul(u[1], v[3])), mul(u[2], v[0])), mul(u[3], v[1])),
          add(sub(add(mul(u[0], v[3]), mul(u[1], v[2])), mul(u[2], v[1])), mul(u[3], v[0]))]


def qconj(q):
  return [q[0], neg(q[1]), neg(q[2]), neg(q[3])]


def qrot(v, q):
  w, u = q[0], list(q[1:])
  uv = cross(u, v)
  uuv = cross(u, uv)
  return [add(add(v[i], mul(2, mul(w, uv[i]))), mul(2, uuv[i])) for i in range(3)]


def ex(v):
  return [J(core.num(float(x)) if not isinstance(x, (int, F)) else x) for x in v]


def body_jets(spec, q, qd, sincos_half):
  """per body: (com position jet[3], orientation jet[4]) along q(t) = q + qd t (zero generalized acceleration)"""
  out = []
  qi = di = 0
  for b in spec['bodies']:
    p = b['parent']
    if p >= 0:
      Pp, Qp = out[p][2], out[p][1]
      pos = vadd(Pp, qrot(ex(b['pos']), Qp))
      quat = qmul(Qp, ex(b['quat']))
    else:
      pos, quat = ex(b['pos']), ex(b['quat'])
    for j in b['joints']:
      if j['type'] == 'free':
        pos = [J(q[qi + k], qd[di + k], 0) for k in range(3)]
        w = [qd[di + 3], qd[di + 4], qd[di + 5]]
        w2 = s_add(s_add(s_mul(w[0], w[0]), s_mul(w[1], w[1])), s_mul(w[2], w[2]))
        # exp(0.5 w t) = (1 - |w|^2 t^2 / 8,  w t / 2) + O(t^3)
        e = [J(1, 0, s_neg(core.s_div(w2, 8)))] + [J(0, core.s_div(wk, 2), 0) for wk in w]
        quat = qmul([J(q[qi + 3 + k]) for k in range(4)], e)
        qi += 7
        di += 6
        continue
      ax = ex(j['axis'])
      jpos = ex(j['pos'])
      if j['type'] == 'slide':
        wax = qrot(ax, quat)
        pos = vadd(pos, vscale(J(q[qi], qd[di], 0), wax))
      else:
        anchor = vadd(pos, qrot(jpos, quat))
        s0, c0 = sincos_half(q[qi])
        th1 = qd[di]
        h = core.s_div(th1, 2)
        h2 = core.s_div(s_mul(th1, th1), 8)
        s = J(s0, s_mul(c0, h), s_neg(s_mul(s0, h2)))
        c = J(c0, s_neg(s_mul(s0, h)), s_neg(s_mul(c0, h2)))
        quat = qmul(quat, [c, mul(ax[0], s), mul(ax[1], s), mul(ax[2], s)])
        pos = vsub(anchor, qrot(jpos, quat))
      qi += 1
      di += 1
    com = vadd(pos, qrot(ex(b.get('ipos', (0, 0, 0))), quat))
    out.append((com, quat, pos))
  return out


def rates(com, quat):
  """v, a of the centre of mass; w (world) and wdot from the orientation jet"""
  v = [c.a[1] for c in com]
  acc = [s_mul(2, c.a[2]) for c in com]
  qdot = [J(x.a[1], s_mul(2, x.a[2]), 0) for x in quat]
  q1 = [J(x.a[0], x.a[1], 0) for x in quat]
  wq = qmul(qdot, qconj(q1))
  w = [s_mul(2, wq[k].a[0]) for k in (1, 2, 3)]
  wdot = [s_mul(2, wq[k].a[1]) for k in (1, 2, 3)]
  return v, acc, w, wdot


def inertia_world(b, quat0, masses=None, inertias=None, idx=None):
  """I_w = R diag(I) R^T at t = 0 as a function acting on a vector"""
  I = inertias[idx] if inertias is not None else [core.num(float(x)) for x in b['inertia']]
  q0 = [J(x.a[0]) for x in quat0]

  def apply(vec):
    vb = qrot([J(x) for x in vec], qconj(q0))
    ib = [mul(I[k], vb[k]) for k in range(3)]
    return [x.a[0] for x in qrot(ib, q0)]
  return apply


def dynamics(spec, q, qd, sincos_half, gravity, masses=None, inertias=None):
  """returns (M [nv][nv], bias [nv], passive [nv]) as cells. masses / inertias: optional symbolic overrides (lists per body)."""
  nb = len(spec['bodies'])
  nv = len(qd)
  jets = body_jets(spec, q, qd, sincos_half)
  m = [masses[i] if masses is not None else core.num(float(spec['bodies'][i]['mass'])) for i in range(nb)]
  cols = []
  for i in range(nv):
    e = [1 if k == i else 0 for k in range(nv)]
    ji = body_jets(spec, q, e, sincos_half)
    col = []
    for (com, quat, _) in ji:
      v, _, w, _ = rates(com, quat)
      col.append((v, w))
    cols.append(col)
  M = [[0] * nv for _ in range(nv)]
  bias = [0] * nv
  g = [core.num(float(x)) for x in gravity]
  for bi in range(nb):
    com, quat, _ = jets[bi]
    v, acc, w, wdot = rates(com, quat)
    Iw = inertia_world(spec['bodies'][bi], quat, masses, inertias, bi)
    Iww = Iw(w)
    Iwd = Iw(wdot)
    wxIw = [s_sub(s_mul(w[1], Iww[2]), s_mul(w[2], Iww[1])), s_sub(s_mul(w[2], Iww[0]), s_mul(w[0], Iww[2])), s_sub(s_mul(w[0], Iww[1]), s_mul(w[1], Iww[0]))]
    lin = [s_mul(m[bi], s_sub(acc[k], g[k])) for k in range(3)]
    ang = [s_add(Iwd[k], wxIw[k]) for k in range(3)]
    IwJ = [Iw(cols[i][bi][1]) for i in range(nv)]
    for i in range(nv):
      jv, jw = cols[i][bi]
      t = 0
      for k in range(3):
        t = s_add(t, s_add(s_mul(jv[k], lin[k]), s_mul(jw[k], ang[k])))
      bias[i] = s_add(bias[i], t)
      for j2 in range(i, nv):
        jv2, jw2 = cols[j2][bi]
        t = 0
        for k in range(3):
          t = s_add(t, s_add(s_mul(m[bi], s_mul(jv[k], jv2[k])), s_mul(jw2[k], IwJ[i][k])))
        M[i][j2] = s_add(M[i][j2], t)
  for i in range(nv):
    for j2 in range(i):
      M[i][j2] = M[j2][i]
  passive = [0] * nv
  qi = di = 0
  for b in spec['bodies']:
    for j in b['joints']:
      if j['type'] == 'free':
        qi += 7
        di += 6
        continue
      k_, d_, ar = core.num(float(j.get('stiffness') or 0)), core.num(float(j.get('damping') or 0)), core.num(float(j.get('armature') or 0))
      passive[di] = s_sub(s_neg(s_mul(k_, q[qi])), s_mul(d_, qd[di]))
      M[di][di] = s_add(M[di][di], ar)
      qi += 1
      di += 1
  return M, bias, passive


def validate(spec, xml, rng, n=4):
  """reference vs real mujoco at random concrete points"""
  import mujoco
  m = mujoco.MjModel.from_xml_string(xml)
  d = mujoco.MjData(m)
  done = 0
  for _ in range(n):
    qpos = np.array(m.qpos0)
    for j in range(m.njnt):
      a = m.jnt_qposadr[j]
      if m.jnt_type[j] == 0:
        v = np.array([rng.uniform(-1, 1) for _ in range(4)])
        qpos[a:a + 3] = [rng.uniform(-1, 1) for _ in range(3)]
        qpos[a + 3:a + 7] = v / np.linalg.norm(v)
      else:
        qpos[a] = rng.uniform(-1.5, 1.5)
    qvel = np.array([rng.uniform(-1, 1) for _ in range(m.nv)])
    d.qpos[:], d.qvel[:] = qpos, qvel
    mujoco.mj_forward(m, d)
    Mfull = np.zeros((m.nv, m.nv))
    for k in range(m.nv):
      e = np.zeros(m.nv)
      e[k] = 1.0
      res = np.zeros(m.nv)
      mujoco.mj_mulM(m, d, res, e)
      Mfull[:, k] = res
    M, bias, passive = dynamics(spec, [float(x) for x in qpos], [float(x) for x in qvel], lambda a_: (math.sin(a_ / 2), math.cos(a_ / 2)), m.opt.gravity)
    Mn = np.array([[float(x) for x in r] for r in M])
    if not np.allclose(Mn, Mfull, atol=1e-8):
      raise AssertionError('mechanics spec: mass matrix differs from mujoco\n%s\n%s' % (Mn, Mfull))
    if not np.allclose([float(x) for x in bias], d.qfrc_bias, atol=1e-8):
      raise AssertionError('mechanics spec: bias force differs from mujoco: %s vs %s' % ([float(x) for x in bias], d.qfrc_bias))
    if not np.allclose([float(x) for x in passive], d.qfrc_passive, atol=1e-8):
      raise AssertionError('mechanics spec: passive force differs from mujoco: %s vs %s' % ([float(x) for x in passive], d.qfrc_passive))
    done += 1
  return done
