"""Reference kinematics: MuJoCo's mj_kinematics / mj_objectVelocity semantics as terms (cells = exact constants or z3 terms).

Positions: xpos = xpos_p + R(xquat_p) body_pos ; xquat = xquat_p * body_quat ; then per joint of the body in order
  free : xpos, xquat = q
  slide: xpos += R(xquat) axis * q
  hinge: anchor = xpos + R(xquat) jpos ; xquat = xquat * (cos q/2, axis sin q/2) ; xpos = anchor - R(xquat) jpos
Velocities (world frame, at the body origin): geometric Jacobian of the serial chain; free joint: linear world, angular local (MuJoCo qvel).
Validated against real mujoco (mj_forward, mj_objectVelocity) on concrete points by `validate`.
"""
from fractions import Fraction as F

import numpy as np

from sx import core
from sx.core import s_add, s_mul, s_sub, s_neg


def vadd(a, b):
  return [s_add(x, y) for x, y in zip(a, b)]


def vsub(a, b):
  return [s_sub(x, y) for x, y in zip(a, b)]


def vscale(k, a):
  return [s_mul(k, x) for x in a]


def dot(a, b):
  r = 0
  for x, y in zip(a, b):
    r = s_add(r, s_mul(x, y))
  return r


def cross(a, b):
  return [s_sub(s_mul(a[1], b[2]), s_mul(a[2], b[1])), s_sub(s_mul(a[2], b[0]), s_mul(a[0], b[2])), s_sub(s_mul(a[0], b[1]), s_mul(a[1], b[0]))]


def qmul(u, v):
  return [s_sub(s_sub(s_sub(s_mul(u[0], v[0]), s_mul(u[1], v[1])), s_mul(u[2], v[2])), s_mul(u[3], v[3])),
          s_sub(s_add(s_add(s_mul(u[0], v[1]), s_mul(u[1], v[0])), s_mul(u[2], v[3])), s_mul(u[3], v[2])),
          s_add(s_add(s_sub(s_mul(u[0], v[2]), s_mul(u[1], v[3])), s_mul(u[2], v[0])), s_mul(u[3], v[1])),
          s_add(s_sub(s_add(s_mul(u[0], v[3]), s_mul(u[1], v[2])), s_mul(u[2], v[1])), s_mul(u[3], v[0]))]


def qrot(v, q):
  """rotate v by unit quaternion q:  v + 2 w (u x v) + 2 u x (u x v)"""
  w, u = q[0], list(q[1:])
  uv = cross(u, v)
  uuv = cross(u, uv)
  return [s_add(s_add(v[i], s_mul(2, s_mul(w, uv[i]))), s_mul(2, uuv[i])) for i in range(3)]


def qconj(q):
  return [q[0], s_neg(q[1]), s_neg(q[2]), s_neg(q[3])]


def exact(v):
  return [core.num(float(x)) if not isinstance(x, (int, F)) else x for x in v]


def forward(spec, q, qd, sincos_half):
  """spec: gen.models spec (exact decimals). q, qd: lists of cells in MuJoCo order. sincos_half(cell) -> (sin(cell/2), cos(cell/2)).
  Returns per body: dict(pos, quat, ang, vel, single) with world-frame quantities; `single` marks the velocity-claim class."""
  bodies = spec['bodies']
  out = []
  qi, di = 0, 0
  for b in bodies:
    p = b['parent']
    if p >= 0:
      P = out[p]
      pos = vadd(P['pos'], qrot(exact(b['pos']), P['quat']))
      quat = qmul(P['quat'], exact(b['quat']))
      ang_p, vel_p, pos_p = P['ang'], P['vel'], P['pos']
      cls = P['single']
    else:
      pos, quat = exact(b['pos']), exact(b['quat'])
      ang_p, vel_p, pos_p = [0, 0, 0], [0, 0, 0], [0, 0, 0]
      cls = True
    contrib = []     # (kind, world axis, world anchor, qd cell)
    free = None
    for j in b['joints']:
      if j['type'] == 'free':
        pos = [q[qi], q[qi + 1], q[qi + 2]]
        quat = [q[qi + 3], q[qi + 4], q[qi + 5], q[qi + 6]]
        free = (di,)
        qi += 7
        di += 6
        continue
      ax = exact(j['axis'])
      jpos = exact(j['pos'])
      if j['type'] == 'slide':
        wax = qrot(ax, quat)
        pos = vadd(pos, vscale(q[qi], wax))
        contrib.append(('slide', wax, None, qd[di]))
      else:
        anchor = vadd(pos, qrot(jpos, quat))
        wax = qrot(ax, quat)
        s, c = sincos_half(q[qi])
        quat = qmul(quat, [c, s_mul(ax[0], s), s_mul(ax[1], s), s_mul(ax[2], s)])
        pos = vsub(anchor, qrot(jpos, quat))
        contrib.append(('hinge', wax, anchor, qd[di]))
      qi += 1
      di += 1
    if free is not None:
      d0 = free[0]
      vel = [qd[d0], qd[d0 + 1], qd[d0 + 2]]
      ang = qrot([qd[d0 + 3], qd[d0 + 4], qd[d0 + 5]], quat)
    else:
      ang = list(ang_p)
      vel = vadd(vel_p, cross(ang_p, vsub(pos, pos_p)))
      for kind, wax, anchor, v in contrib:
        if kind == 'slide':
          vel = vadd(vel, vscale(v, wax))
        else:
          ang = vadd(ang, vscale(v, wax))
          vel = vadd(vel, vscale(v, cross(wax, vsub(pos, anchor))))
    nj = [j for j in b['joints'] if j['type'] != 'free']
    at_origin = all(all(float(x) == 0 for x in j['pos']) for j in nj)
    single = cls and (free is not None or (len(nj) == 1 and at_origin))
    out.append(dict(pos=pos, quat=quat, ang=ang, vel=vel, single=single))
  return out


def validate(spec, xml, rng, n=8):
  """reference vs real mujoco at random concrete points; returns points compared"""
  import math
  import mujoco
  m = mujoco.MjModel.from_xml_string(xml)
  d = mujoco.MjData(m)
  done = 0
  for _ in range(n):
    qpos = np.array(m.qpos0)
    for j in range(m.njnt):
      a = m.jnt_qposadr[j]
      if m.jnt_type[j] == 0:
        v = np.array([rng.uniform(-1, 1) for _ in range(4)])
        qpos[a:a + 3] = [rng.uniform(-1, 1) for _ in range(3)]
        qpos[a + 3:a + 7] = v / np.linalg.norm(v)
      else:
        qpos[a] = rng.uniform(-2, 2)
    qvel = np.array([rng.uniform(-1, 1) for _ in range(m.nv)])
    d.qpos[:], d.qvel[:] = qpos, qvel
    mujoco.mj_forward(m, d)
    ref = forward(spec, [float(x) for x in qpos], [float(x) for x in qvel], lambda a: (math.sin(a / 2), math.cos(a / 2)))
    for i, r in enumerate(ref):
      xq = d.xquat[i + 1]
      rq = np.array([float(x) for x in r['quat']])
      if not np.allclose([float(x) for x in r['pos']], d.xpos[i + 1], atol=1e-9) or not (np.allclose(rq, xq, atol=1e-9) or np.allclose(rq, -xq, atol=1e-9)):
        raise AssertionError('kinematics spec disagrees with MuJoCo on body %d pose' % i)
      vel = np.zeros(6)
      mujoco.mj_objectVelocity(m, d, mujoco.mjtObj.mjOBJ_XBODY.value, i + 1, vel, 0)
      if not (np.allclose([float(x) for x in r['ang']], vel[:3], atol=1e-9) and np.allclose([float(x) for x in r['vel']], vel[3:], atol=1e-9)):
        raise AssertionError('kinematics spec disagrees with MuJoCo on body %d velocity: %s vs %s' % (i, [float(x) for x in r['ang']] + [float(x) for x in r['vel']], vel))
    done += 1
  return done
