"""Model generator: kinematic forests as MJCF with exact short-decimal parameters (shared by the physics checks).

A model spec is a dict: bodies = [{name, parent (index or -1), pos, quat, joints:[{name,type,axis,pos,range,damping,armature,stiffness}],
geoms:[{type,size,pos,quat,fromto}] , mass, inertia}], actuators = [{kind, joint, gear, kp, kv, ctrlrange, forcerange}].
Everything numeric is a decimal string-able float with <= 3 digits so that float64 and the exact rational coincide.
"""
import random
from fractions import Fraction as F

QUATS = [(1, 0, 0, 0), (0.5, 0.5, 0.5, 0.5), (0.6, 0, 0.8, 0), (0.8, 0, 0, 0.6), (0, 0.6, 0, 0.8), (0.28, 0.96, 0, 0),
         (0.5, -0.5, 0.5, -0.5), (0.1, 0.7, 0.7, 0.1), (0.2, 0.4, 0.4, 0.8), (0.36, 0.48, 0.8, 0), (0.8, 0.6, 0, 0), (0.7, 0.1, -0.1, 0.7)]
AXES = [(1, 0, 0), (0, 1, 0), (0, 0, 1), (0.6, 0.8, 0), (0, 0.6, 0.8), (0.8, 0, 0.6), (0.36, 0.48, 0.8), (0.48, 0.6, 0.64), (-0.6, 0, 0.8),
        (0, -1, 0), (0.28, 0, 0.96)]
ORTHO = [((1, 0, 0), (0, 1, 0), (0, 0, 1)), ((0, 1, 0), (0, 0, 1), (1, 0, 0)), ((0, 0, 1), (1, 0, 0), (0, 1, 0)),
         ((0, 1, 0), (1, 0, 0), (0, 0, 1)), ((1, 0, 0), (0, 0, 1), (0, 1, 0)), ((0.6, 0.8, 0), (-0.8, 0.6, 0), (0, 0, 1)),
         ((0, 0.6, 0.8), (0, -0.8, 0.6), (1, 0, 0)), ((0.8, 0, 0.6), (0, 1, 0), (-0.6, 0, 0.8))]


def fmt(v):
  return ' '.join(repr(float(x)) if not isinstance(x, int) else str(x) for x in v)


def dec(rng, lo, hi, digits=1):
  s = 10 ** digits
  return rng.randint(int(lo * s), int(hi * s)) / s


def vec(rng, lo=-0.4, hi=0.4):
  return tuple(dec(rng, lo, hi) for _ in range(3))


def to_xml(spec):
  bodies = spec['bodies']
  kids = {i: [] for i in range(-1, len(bodies))}
  for i, b in enumerate(bodies):
    kids[b['parent']].append(i)

  def body_xml(i, ind):
    b = bodies[i]
    sp = '  ' * ind
    out = ['%s<body name="%s" pos="%s" quat="%s">' % (sp, b['name'], fmt(b['pos']), fmt(b['quat']))]
    for j in b['joints']:
      if j['type'] == 'free':
        out.append('%s  <freejoint name="%s"/>' % (sp, j['name']))
        continue
      at = 'name="%s" type="%s" axis="%s" pos="%s"' % (j['name'], j['type'], fmt(j['axis']), fmt(j['pos']))
      if j.get('range') is not None:
        at += ' limited="true" range="%s"' % fmt(j['range'])
      for k in ('damping', 'armature', 'stiffness'):
        if j.get(k):
          at += ' %s="%r"' % (k, float(j[k]))
      out.append('%s  <joint %s/>' % (sp, at))
    if b.get('mass') is not None:
      out.append('%s  <inertial pos="%s" mass="%r" diaginertia="%s"/>' % (sp, fmt(b.get('ipos', (0, 0, 0))), float(b['mass']), fmt(b['inertia'])))
    for g in b.get('geoms', []):
      at = 'type="%s" size="%s"' % (g['type'], fmt(g['size']))
      if g.get('fromto') is not None:
        at += ' fromto="%s"' % fmt(g['fromto'])
      else:
        at += ' pos="%s" quat="%s"' % (fmt(g.get('pos', (0, 0, 0))), fmt(g.get('quat', (1, 0, 0, 0))))
      if g.get('name'):
        at += ' name="%s"' % g['name']
      if g.get('contype') is not None:
        at += ' contype="%d" conaffinity="%d"' % (g['contype'], g['conaffinity'])
      if g.get('margin'):
        at += ' margin="%r"' % float(g['margin'])
      out.append('%s  <geom %s/>' % (sp, at))
    for c in kids[i]:
      out += body_xml(c, ind + 1)
    out.append('%s</body>' % sp)
    return out
  lines = ['<mujoco model="gen">', '  <compiler angle="radian" autolimits="false"/>',
           '  <option timestep="%r" gravity="%s"/>' % (float(spec.get('timestep', 0.002)), fmt(spec.get('gravity', (0, 0, -9.81))))]
  if spec.get('custom'):
    lines.append('  <custom>')
    lines += ['    ' + c for c in spec['custom']]
    lines.append('  </custom>')
  lines.append('  <worldbody>')
  for g in spec.get('world_geoms', []):
    lines.append('    <geom type="%s" size="%s" pos="%s" quat="%s"%s/>' % (g['type'], fmt(g['size']), fmt(g.get('pos', (0, 0, 0))), fmt(g.get('quat', (1, 0, 0, 0))),
                                                                   ((' name="%s"' % g['name']) if g.get('name') else '') + ((' margin="%r"' % float(g['margin'])) if g.get('margin') else '')))
  for r in kids[-1]:
    lines += body_xml(r, 2)
  lines.append('  </worldbody>')
  if spec.get('actuators'):
    lines.append('  <actuator>')
    for k, a in enumerate(spec['actuators']):
      at = 'name="a%d" joint="%s" gear="%r"' % (k, a['joint'], float(a.get('gear', 1)))
      if a.get('ctrlrange') is not None:
        at += ' ctrllimited="true" ctrlrange="%s"' % fmt(a['ctrlrange'])
      if a.get('forcerange') is not None:
        at += ' forcelimited="true" forcerange="%s"' % fmt(a['forcerange'])
      if a['kind'] == 'motor':
        lines.append('    <motor %s/>' % at)
      elif a['kind'] == 'position':
        lines.append('    <position %s kp="%r"/>' % (at, float(a['kp'])))
      elif a['kind'] == 'velocity':
        lines.append('    <velocity %s kv="%r"/>' % (at, float(a['kv'])))
      elif a['kind'] == 'general':
        lines.append('    <general %s gainprm="%r" biastype="affine" biasprm="0 %r %r"/>' % (at, float(a['gain']), float(a['bq']), float(a['bqd'])))
    lines.append('  </actuator>')
  lines.append('</mujoco>')
  return '\n'.join(lines)


def dfs_order(spec):
  """reorder bodies into document (depth-first) order = MuJoCo body id order, remapping parents"""
  bodies = spec['bodies']
  kids = {i: [] for i in range(-1, len(bodies))}
  for i, b in enumerate(bodies):
    kids[b['parent']].append(i)
  order = []

  def walk(i):
    order.append(i)
    for c in kids[i]:
      walk(c)
  for r in kids[-1]:
    walk(r)
  new_index = {old: new for new, old in enumerate(order)}
  out = []
  for old in order:
    b = dict(bodies[old])
    b['parent'] = -1 if b['parent'] == -1 else new_index[b['parent']]
    out.append(b)
  spec = dict(spec)
  spec['bodies'] = out
  return spec


def exact_params(spec):
  """what the loader must produce for the kinematic fields, as exact rationals (validated against the loaded System by the checks)"""
  from fractions import Fraction
  fr = lambda v: [Fraction(repr(float(x))) for x in v]
  tpos, trot, jpos, ang, vel = [], [], [], [], []
  for b in spec['bodies']:
    free = any(j['type'] == 'free' for j in b['joints'])
    tpos.append([Fraction(0)] * 3 if free else fr(b['pos']))
    trot.append([Fraction(1), Fraction(0), Fraction(0), Fraction(0)] if free else fr(b['quat']))
    nj = [j for j in b['joints'] if j['type'] != 'free']
    jpos.append(fr(nj[0]['pos']) if nj else [Fraction(0)] * 3)
    for j in b['joints']:
      if j['type'] == 'free':
        for k in range(3):
          vel.append([Fraction(int(i == k)) for i in range(3)])
          ang.append([Fraction(0)] * 3)
        for k in range(3):
          ang.append([Fraction(int(i == k)) for i in range(3)])
          vel.append([Fraction(0)] * 3)
      elif j['type'] == 'hinge':
        ang.append(fr(j['axis']))
        vel.append([Fraction(0)] * 3)
      else:
        vel.append(fr(j['axis']))
        ang.append([Fraction(0)] * 3)
  return {'link.transform.pos': tpos, 'link.transform.rot': trot, 'link.joint.pos': jpos, 'dof.motion.ang': ang, 'dof.motion.vel': vel}


def random_forest(rng, nlinks=None, max_stack=3, free_root_p=0.5, ortho=False, offsets=True, actuators=0, limits_p=0.0, joint_props=False,
                  geoms=True, stack_words=None):
  """random kinematic forest; stacks share one anchor (brax requirement)."""
  n = nlinks or rng.randint(1, 6)
  bodies = []
  for i in range(n):
    parent = -1 if i == 0 or rng.random() < 0.15 else rng.randint(0, i - 1)
    b = {'name': 'b%d' % i, 'parent': parent, 'pos': vec(rng) if offsets else (0, 0, 0), 'quat': rng.choice(QUATS) if offsets else (1, 0, 0, 0),
         'joints': [], 'geoms': []}
    if parent == -1 and rng.random() < free_root_p:
      b['joints'].append({'name': 'j%d_f' % i, 'type': 'free'})
    else:
      word = rng.choice(stack_words) if stack_words else ''.join(rng.choice('hs') for _ in range(rng.randint(1, max_stack)))
      anchor = vec(rng, -0.2, 0.2) if offsets and rng.random() < 0.6 else (0, 0, 0)
      frame = rng.choice(ORTHO)
      perm = list(range(3))
      rng.shuffle(perm)
      for k, c in enumerate(word):
        ax = frame[perm[k]] if ortho else rng.choice(AXES)
        j = {'name': 'j%d_%d' % (i, k), 'type': 'hinge' if c == 'h' else 'slide', 'axis': ax, 'pos': anchor, 'range': None}
        if rng.random() < limits_p:
          j['range'] = (-dec(rng, 0.5, 1.5), dec(rng, 0.5, 1.5))
        if joint_props:
          j['damping'] = rng.choice([0, 0.5, 1.5])
          j['armature'] = rng.choice([0, 0.1, 0.25])
          j['stiffness'] = rng.choice([0, 2.0, 5.0])
        b['joints'].append(j)
    b['mass'] = dec(rng, 0.5, 3.0)
    b['ipos'] = vec(rng, -0.1, 0.1) if offsets else (0, 0, 0)
    b['inertia'] = (dec(rng, 0.2, 0.35, 2), dec(rng, 0.2, 0.35, 2), dec(rng, 0.2, 0.35, 2))
    if geoms:
      b['geoms'].append({'type': 'sphere', 'size': (0.1,), 'pos': (0, 0, 0), 'quat': (1, 0, 0, 0), 'contype': 0, 'conaffinity': 0})
    bodies.append(b)
  spec = dfs_order({'bodies': bodies, 'actuators': []})
  bodies = spec['bodies']
  jn = [j for b in bodies for j in b['joints'] if j['type'] != 'free']
  for _ in range(actuators if jn else 0):
    j = rng.choice(jn)
    kind = rng.choice(['motor', 'position', 'velocity', 'general'])
    a = {'kind': kind, 'joint': j['name'], 'gear': rng.choice([1, 2, -1.5, 0.5, 3, 20]), 'kp': rng.choice([1, 4, 10.5]), 'kv': rng.choice([0.5, 2, 3.5]),
         'gain': rng.choice([1, 2.5, -2]), 'bq': rng.choice([0, -3, 1.5]), 'bqd': rng.choice([0, -0.5, 2]),
         'ctrlrange': rng.choice([None, (-1, 1), (-0.5, 2), (0, 1.5)]), 'forcerange': rng.choice([None, (-2, 2), (-0.5, 4), (-10, 1)])}
    spec['actuators'].append(a)
  return spec


def tree_model(rng, words, parents=None, free_root=True, ortho=True, limits_p=1.0, actuators=0, joint_props=False, offsets=True, root_word=None, geoms=False):
  """root (free, or world-attached with stack `root_word`) + one link per entry of `words` (stack words), parents[i] = index into the link list (0 = root)."""
  n = len(words)
  parents = parents or [i for i in range(n)]     # chain by default: link i+1 hangs off link i
  bodies = []
  root = {'name': 'b0', 'parent': -1, 'pos': (0, 0, 1.0), 'quat': (1, 0, 0, 0), 'joints': [], 'geoms': []}
  if free_root:
    root['joints'].append({'name': 'j0_f', 'type': 'free'})
  specs = [(root, root_word if not free_root else None)]
  for i, w in enumerate(words):
    b = {'name': 'b%d' % (i + 1), 'parent': parents[i], 'pos': vec(rng) if offsets else (0.3, 0, 0), 'quat': rng.choice(QUATS) if offsets else (1, 0, 0, 0), 'joints': [], 'geoms': []}
    specs.append((b, w))
  for i, (b, w) in enumerate(specs):
    if w:
      anchor = vec(rng, -0.2, 0.2) if offsets and rng.random() < 0.6 else (0, 0, 0)
      frame = rng.choice(ORTHO)
      perm = list(range(3))
      rng.shuffle(perm)
      for k, c in enumerate(w):
        ax = frame[perm[k]] if ortho else rng.choice(AXES)
        j = {'name': 'j%d_%d' % (i, k), 'type': 'hinge' if c == 'h' else 'slide', 'axis': ax, 'pos': anchor, 'range': None}
        if rng.random() < limits_p:
          j['range'] = (-dec(rng, 0.5, 1.5), dec(rng, 0.5, 1.5))
        if joint_props:
          j['damping'] = rng.choice([0, 0.5, 1.5])
          j['armature'] = rng.choice([0, 0.1, 0.25])
          j['stiffness'] = rng.choice([0, 2.0, 5.0])
        b['joints'].append(j)
    b['mass'] = dec(rng, 0.5, 3.0)
    b['ipos'] = vec(rng, -0.1, 0.1) if offsets else (0, 0, 0)
    b['inertia'] = (dec(rng, 0.2, 0.35, 2), dec(rng, 0.2, 0.35, 2), dec(rng, 0.2, 0.35, 2))
    b['geoms'].append({'type': 'sphere', 'size': (0.1,), 'pos': (0, 0, 0), 'quat': (1, 0, 0, 0), 'contype': 1 if geoms else 0, 'conaffinity': 1 if geoms else 0})
    bodies.append(b)
  spec = dfs_order({'bodies': bodies, 'actuators': []})
  jn = [j for b in spec['bodies'] for j in b['joints'] if j['type'] != 'free']
  for k in range(actuators if jn else 0):
    j = jn[k % len(jn)]
    kind = ['motor', 'position', 'velocity'][k % 3]
    spec['actuators'].append({'kind': kind, 'joint': j['name'], 'gear': rng.choice([1, 2, 0.5]), 'kp': rng.choice([1, 4]), 'kv': rng.choice([0.5, 2]),
                              'ctrlrange': rng.choice([None, (-1, 1)]), 'forcerange': rng.choice([None, (-2, 2)])})
  return spec


def merge_specs(specs):
  """several models in one document (disconnected kinematic trees), names prefixed"""
  merged = {'bodies': [], 'actuators': []}
  for k, sp_ in enumerate(specs):
    pre = chr(ord('A') + k)
    base = len(merged['bodies'])
    for b in sp_['bodies']:
      b2 = dict(b)
      b2['name'] = pre + b['name']
      b2['parent'] = -1 if b['parent'] == -1 else b['parent'] + base
      b2['joints'] = [dict(j, name=pre + j['name']) for j in b['joints']]
      merged['bodies'].append(b2)
    for a in sp_.get('actuators', []):
      merged['actuators'].append(dict(a, joint=pre + a['joint']))
  return merged
