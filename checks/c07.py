"""C07 — batching is transparent; batch members are independent (partial claim: "jit agrees with eager" is outside).

Encoded: the jaxpr of jax.vmap(f) on a batch of symbolic members and the jaxpr of f on one member, for f = pipeline.init o step (spring, positional);
obligation: vmap(f)(batch)[i] == f(batch[i]) for every output cell (both are interpreted by SX; equal cells are usually the same term, the rest
goes to the solver on the additive skeleton).  Since member i of the batched result equals the solo result on member i's inputs, it cannot depend on
the other members (independence).  Training wrappers: VmapWrapper + EpisodeWrapper + AutoResetWrapper + EvalWrapper around a scripted environment
with per-member SYMBOLIC termination schedules (all schedules at once): member 0's outputs are unchanged when member 1's schedule and rewards change
(two-copy query) and equal the single-member reference automaton.  DomainRandomizationVmapWrapper: per-member systems (scaled masses) against a solo
environment built from that member's system, with symbolic actions.
"""
import random
from fractions import Fraction as F

import jax
import jax.numpy as jp
import numpy as np
import z3

from checks.c05 import EXACT_INV, outputs, state_inputs
from gen import models
from lib import report
from sx import core
from sx.abstract import Abstractor
from sx.core import lift
from sx.solve import Ob


def run(ck, a):
  from brax import envs
  from brax.envs.wrappers import training
  from brax.io import mjcf
  from brax.positional import pipeline as pp
  from brax.spring import pipeline as sp
  from checks import c15
  thorough = ck.tier == 'thorough'
  rng = random.Random(700 + ck.seed)
  B = 3 if thorough else 2
  ck.bounds = {'batch': B, 'pipelines': ['spring', 'positional'], 'models': 'free root + hinge link(s), with and without collision geometry', 'members': 'Tier B q per member (different), '
               'symbolic velocities on a line per member (different parameters), symbolic controls', 'wrappers': 'episode_length 2-3, action_repeat 1-2, all termination schedules (symbolic), 2 members',
               'domain randomisation': 'inverted_pendulum (spring backend), masses scaled per member, symbolic actions, reset + 1 step',
               'outside': 'jit vs eager (XLA compilation and float round-off); batches of 4-8 (same structure)'}
  ck.assumptions += ['reals for floats', 'skeleton abstraction for cells that are not syntactically identical (sound for unsat)']
  replay = {}
  pipes = [('spring', sp), ('positional', pp)]
  for geoms in (False, True):
    spec = models.tree_model(rng, ['h'] if not geoms else ['h'], free_root=True, ortho=True, limits_p=1.0, actuators=1, joint_props=True, geoms=geoms)
    spec['custom'] = EXACT_INV
    if geoms:
      spec['world_geoms'] = [{'type': 'plane', 'size': (5, 5, 1), 'pos': (0, 0, -3), 'quat': (1, 0, 0, 0), 'name': 'floor'}]
    xml = models.to_xml(spec)
    sys_ = mjcf.loads(xml)
    for pname, mod in pipes:
      ctx = core.Ctx(fold=False)
      members = []
      for m in range(B):
        q, qd = state_inputs(spec, random.Random(10 + m), ctx, prefix='m%d' % m)
        q[0:3] = [F(3 + m, 10), F(-1, 5), F(1, 2)]
        act = core.reals('m%dact' % m, (sys_.act_size(),))
        members.append((q, qd, act))
      fo = outputs(mod, pname)
      f1 = lambda q, qd, act: fo(sys_, q, qd, act)
      qb = np.array([mq for mq, _, _ in members], dtype=object)
      qdb = np.array([mqd for _, mqd, _ in members], dtype=object)
      ab_ = np.array([list(ma) for _, _, ma in members], dtype=object).reshape(B, -1)
      try:
        ob, cj = core.run(ctx, lambda q, qd, act: jax.vmap(f1)(q, qd, act), qb, qdb, ab_)
        solo = [core.run(ctx, f1, core.obj_array(mq), core.obj_array(mqd), ma)[0] for mq, mqd, ma in members]
      except (core.SXUnsupported, ZeroDivisionError, ValueError, AssertionError) as e_:
        ck.harness_error('vmap %s geoms=%s: %r' % (pname, geoms, e_))
        continue
      ck.traced('jax.vmap(%s.pipeline.init+step)' % pname, cj)
      tag = 'vmap/%s/%s' % (pname, 'contacts' if geoms else 'no-contacts')
      replay[tag] = (xml, pname)
      names = ['x.pos', 'x.rot', 'xd.vel', 'xd.ang', 'q', 'qd']
      for i in range(B):
        ndiff = 0
        ab = Abstractor(keep=30)
        goals = []
        for nm, u, v in zip(names, ob, solo[i]):
          for xc, yc in zip(np.asarray(u[i], dtype=object).reshape(-1), np.asarray(v, dtype=object).reshape(-1)):
            e = core.s_eq(xc, yc)
            if isinstance(e, bool) and e:
              continue
            ndiff += 1
            goals.append(z3.BoolVal(False) if isinstance(e, bool) else ab.formula(e))
        ck.add(Ob('vmap-transparent/%s/member%d (%d cells not syntactically identical)' % (tag, i, ndiff), [], z3.And(goals) if goals else True, timeout=120, meta={'tag': tag}))
      # mutation twin: member 0 of the batched result is NOT the solo result of member 1 (the comparison is not blind)
      if pname != 'spring':
        continue
      ab2 = Abstractor(keep=30)
      sw = [ab2.formula(lift(xc) == lift(yc)) for xc, yc in zip(np.asarray(ob[5][0], dtype=object).reshape(-1), np.asarray(solo[1][5], dtype=object).reshape(-1))]
      ck.add(Ob('twin/member0-is-not-member1/%s' % tag, [z3.Not(z3.And(sw))], None, expect='sat', timeout=30))
      if not geoms and pname == 'spring':
        ck.samples.append({'model': tag, 'xml': xml})

  # ---------------- training wrappers with per-member schedules (uses the scripted environment and reference automaton of C15)
  acting = c15.import_acting()
  key = jax.random.PRNGKey(7)
  kt = jax.random.split(key, 2)
  for EL, AR in ((2, 1), (3, 2)) if not thorough else ((2, 1), (3, 2), (4, 1), (5, 2)):
    H = -(-3 * EL // AR)
    L = H * AR + 1
    Db, R = core.bools('D', (2, L)), core.reals('R', (2, L))
    W = core.reals('W', (2,))
    def roll(Db, R, W):
      env = c15.make_env(jp.where(Db, 1.0, 0.0), R, kt)
      wenv = training.EvalWrapper(training.wrap(env, episode_length=EL, action_repeat=AR))
      state = wenv.reset(kt)
      rows = []
      for w in range(H):
        action = state.obs[..., 0:1] * W[0] + W[1]
        state = wenv.step(state, action)
        em = state.info['eval_metrics']
        rows.append(jp.stack([state.done, state.reward, state.info['steps'], state.info['truncation'], state.obs[:, 0], em.active_episodes, em.episode_steps, em.episode_metrics['reward']], axis=1))
      return jp.stack(rows)
    ctx = core.Ctx()
    (o1,), cj = core.run(ctx, lambda *xs: (roll(*xs),), Db, R, W)
    ck.traced('training.wrap + EvalWrapper (two members, scripted env)', cj)
    Db2, R2 = core.bools('E', (2, L)), core.reals('S', (2, L))
    Db2.arr[0, :] = Db.arr[0, :]
    R2[0, :] = R[0, :]
    (o2,), _ = core.run(ctx, lambda *xs: (roll(*xs),), Db2, R2, W)
    eqs = [core.s_eq(x, y) for x, y in zip(o1[:, 0, :].reshape(-1), o2[:, 0, :].reshape(-1))]
    eqs = [e for e in eqs if not (isinstance(e, bool) and e)]
    goal = z3.BoolVal(False) if any(isinstance(e, bool) for e in eqs) else (z3.And(eqs) if eqs else True)
    ck.add(Ob('wrappers: member 0 independent of member 1 across episode boundaries/EL=%d/AR=%d' % (EL, AR), [], goal, timeout=120, meta={'tag': 'wrap', 'EL': EL, 'AR': AR}))
    if EL == 2:
      ck.add(Ob('twin/member-depends-on-itself/EL=%d' % EL, [z3.Not(z3.And([core.s_eq(o1[w, 0, 0], 0) if not isinstance(core.s_eq(o1[w, 0, 0], 0), bool) else z3.BoolVal(core.s_eq(o1[w, 0, 0], 0)) for w in range(H)]))], None,
                expect='sat', timeout=30))

  # ---------------- domain randomisation wrapper vs a solo environment built from the member's system
  import signal
  def _alarm(signum, frame):
    raise TimeoutError('domain randomisation harness exceeded its 300 s cap')
  signal.signal(signal.SIGALRM, _alarm)
  signal.alarm(300)
  try:
    env = envs.get_environment('inverted_pendulum', backend='spring')
    base_sys = env.unwrapped.sys
    scales = jp.array([0.5, 2.0])
    def rand_fn(sys):
      mass = sys.link.inertia.mass[None, :] * scales[:, None]
      in_axes = jax.tree.map(lambda x: None, sys)
      in_axes = in_axes.tree_replace({'link.inertia.mass': 0})
      return sys.tree_replace({'link.inertia.mass': mass}), in_axes
    dr = training.DomainRandomizationVmapWrapper(env, rand_fn)
    rk = jax.random.split(jax.random.PRNGKey(5), 2)
    acts = core.reals('a', (2, env.action_size))
    def dr_roll(acts):
      st = dr.reset(rk)
      st2 = dr.step(st, acts)
      return st.pipeline_state.q, st2.pipeline_state.q, st2.pipeline_state.qd, st2.obs, st2.reward
    ctx = core.Ctx()
    (q0, q1, qd1, obs1, rew1), cj = core.run(ctx, dr_roll, acts)
    ck.traced('DomainRandomizationVmapWrapper.reset+step (inverted_pendulum, spring)', cj)
    env.unwrapped.sys = base_sys      # the wrapper leaves the traced per-member system on the shared env object
    for i in range(2):
      sys_i = base_sys.tree_replace({'link.inertia.mass': base_sys.link.inertia.mass * scales[i]})
      def solo(act):
        env.unwrapped.sys = sys_i
        try:
          st = env.reset(rk[i])
          st2 = env.step(st, act)
        finally:
          env.unwrapped.sys = base_sys
        return st.pipeline_state.q, st2.pipeline_state.q, st2.pipeline_state.qd, st2.obs, st2.reward
      (s0, s1, sd1, so1, sr1), _ = core.run(ctx, solo, acts[i])
      ab = Abstractor(keep=30)
      goals = []
      for u, v in ((q0[i], s0), (q1[i], s1), (qd1[i], sd1), (obs1[i], so1), (rew1[i], sr1)):
        for xc, yc in zip(np.asarray(u, dtype=object).reshape(-1), np.asarray(v, dtype=object).reshape(-1)):
          e = core.s_eq(xc, yc)
          if isinstance(e, bool) and e:
            continue
          goals.append(z3.BoolVal(False) if isinstance(e, bool) else ab.formula(e))
      ob_ = Ob('domain-randomisation/member%d equals the solo environment built from its system' % i, [], z3.And(goals) if goals else True, timeout=120, meta={'tag': 'dr', 'member': i})
      if goals and core.dag_count(goals, cap=60000) >= 60000:
        # the two runs differ in so many large terms that even asserting the formula takes z3 minutes: leave it undecided and let the concrete
        # witness search on the real wrapper decide whether there is a violation to report
        ob_.status, ob_.smt2 = 'unknown', ''
        ck.notes.append('domain-randomisation member %d: terms too large for the solver, decided by the concrete witness search only' % i)
      ck.add(ob_)
  except (core.SXUnsupported, ZeroDivisionError, ValueError, AssertionError, TypeError, TimeoutError) as e_:
    ck.harness_error('domain randomisation harness: %r' % (e_,))
  finally:
    signal.alarm(0)

  def rep(ob):
    tag = ob.meta['tag']
    if tag == 'dr':
      env = envs.get_environment('inverted_pendulum', backend='spring')
      base_sys = env.unwrapped.sys
      scales = jp.array([0.5, 2.0])
      def rand_fn(sys):
        mass = sys.link.inertia.mass[None, :] * scales[:, None]
        in_axes = jax.tree.map(lambda x: None, sys)
        in_axes = in_axes.tree_replace({'link.inertia.mass': 0})
        return sys.tree_replace({'link.inertia.mass': mass}), in_axes
      dr = training.DomainRandomizationVmapWrapper(env, rand_fn)
      rk = jax.random.split(jax.random.PRNGKey(5), 2)
      acts = jp.array([[0.7], [-0.4]])
      st = dr.reset(rk)
      st2 = dr.step(st, acts)
      env.unwrapped.sys = base_sys
      i = ob.meta['member']
      env.unwrapped.sys = base_sys.tree_replace({'link.inertia.mass': base_sys.link.inertia.mass * scales[i]})
      s1 = env.reset(rk[i])
      s2 = env.step(s1, acts[i])
      env.unwrapped.sys = base_sys
      err = max(float(jp.abs(st2.pipeline_state.qd[i] - s2.pipeline_state.qd).max()), float(jp.abs(st2.obs[i] - s2.obs).max()), float(jp.abs(st.pipeline_state.mass[i] - s1.pipeline_state.mass).max()))
      if err > 1e-9:
        return True, {'env': 'inverted_pendulum/spring', 'member': i, 'mass_scale': float(scales[i]), 'action': float(acts[i, 0]), 'max_difference_between_wrapped_member_and_solo_env': err}
      return False, {'why': 'wrapped member equals the solo environment on the concrete run'}
    if tag == 'wrap':
      return True, {'model': ob.model, 'note': 'two-program identity violated on the traced wrapper code (solver model above)'}
    xml, pname = replay[tag]
    mod = dict(pipes)[pname]
    s = mjcf.loads(xml)
    r = np.random.RandomState(4)
    def one(q, qd, act):
      o = mod.step(s, mod.init(s, q, qd), act)
      return o.x.pos, o.qd
    qs, qds, acts = [], [], []
    for m in range(B):
      q = np.array(s.init_q)
      q[3:7] = r.randn(4)
      q[3:7] /= np.linalg.norm(q[3:7])
      q[7:] = r.uniform(-0.6, 0.6, len(q) - 7)
      qs.append(q)
      qds.append(r.uniform(-1, 1, s.qd_size()))
      acts.append(r.uniform(-1, 1, s.act_size()))
    bp, bq = jax.vmap(one)(jp.array(qs), jp.array(qds), jp.array(acts))
    for m in range(B):
      sp_, sq = one(jp.array(qs[m]), jp.array(qds[m]), jp.array(acts[m]))
      if float(jp.abs(bp[m] - sp_).max()) > 1e-10 or float(jp.abs(bq[m] - sq).max()) > 1e-10:
        return True, {'xml': xml, 'pipeline': pname, 'member': m, 'batched_qd': np.asarray(bq[m]).tolist(), 'solo_qd': np.asarray(sq).tolist()}
    return False, {'why': 'batched and solo results agree on sampled members'}
  for p in ('vmap-transparent', 'wrappers', 'domain'):
    ck.replayers[p] = rep
  ck.discharge()
  ck.cross_check(n=1, timeout=10)


if __name__ == '__main__':
  report.main('C07', run)
