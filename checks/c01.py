"""C01 — forward kinematics matches the reference engine for every model and pose.

Encoded: kinematics.forward (with scan.tree, scan.link_types, Transform.do, math.*) traced on systems loaded by the real mjcf.loads from
generator forests; the kinematic parameters are fed as exact rationals (validated against the loaded System), hinge angles are symbolic
with exact rational half-angle sin/cos (Tier B), free-root orientations exact rational unit quaternions; root positions, slide coordinates
and ALL velocities are symbolic reals.  Oracle: MuJoCo's mj_kinematics / mj_objectVelocity semantics as terms (spec/kin.py), validated
against real mujoco every run.  Plumbing lemma: scan.tree / scan.link_types route payloads correctly on ALL forests / type strings up to a bound.
"""
import itertools
import math
import random
import types
from fractions import Fraction as F

import jax
import jax.numpy as jp
import numpy as np
import z3

from gen import models
from lib import report
from spec import kin
from sx import core, validate
from sx.core import lift
from sx.solve import Ob

TS = [F(0), F(1, 5), F(-1, 3), F(1, 2), F(-1, 4), F(2, 5), F(-1, 2), F(1, 3), F(-2, 5), F(1, 4), F(3, 10), F(-1, 5)]
KNOWN_VEL = 'kinematics.forward velocity of links with stacked joints or a joint anchor away from the link origin (upstream TODO in jcalc)'


def half_point(t):
  return (2 * t / (1 + t * t), (1 - t * t) / (1 + t * t))


def symbolic_state(spec, rng, ctx):
  """q, qd cell lists (MuJoCo order) + description for replay"""
  q, qd = [], []
  k = 0
  for b in spec['bodies']:
    for j in b['joints']:
      if j['type'] == 'free':
        q += [z3.Real('q%d' % (k + i)) for i in range(3)]
        uq = rng.choice(models.QUATS)
        q += [F(repr(float(x))) for x in uq]
        k += 7
        qd += [z3.Real('v%d' % (len(qd) + i)) for i in range(6)]
      else:
        v = z3.Real('q%d' % k)
        if j['type'] == 'hinge':
          ctx.angle_points['q%d' % k] = half_point(rng.choice(TS))
        q.append(v)
        k += 1
        qd.append(z3.Real('v%d' % len(qd)))
  return q, qd


def forest_parents(n):
  """all parent vectors of forests with n nodes in depth-first (document) order"""
  out = []

  def rec(par, path):
    i = len(par)
    if i == n:
      out.append(tuple(par))
      return
    # parent is -1 or any node on the current root-to-last path
    rec(par + [-1], [i])
    for d, p in enumerate(path):
      rec(par + [p], path[:d + 1] + [i])
  rec([-1], [0])
  return out


def plumbing(ck, thorough):
  from brax import scan
  nmax = 6 if thorough else 5
  k = z3.Real('k')
  ka = np.empty((), dtype=object)
  ka[()] = k
  cnt = 0
  for n in range(1, nmax + 1):
    for par in forest_parents(n):
      sysd = types.SimpleNamespace(link_parents=par, link_types='1' * n)
      a = core.reals('a', (n, 2))
      def fwd(a, k):
        return scan.tree(sysd, lambda y, x: x if y is None else k * y + x, 'l', a)
      def rev(a, k):
        return scan.tree(sysd, lambda y, x: x if y is None else k * y + x, 'l', a, reverse=True)
      ctx = core.Ctx()
      yf, cj = core.run(ctx, fwd, a, ka)
      yr, cj2 = core.run(ctx, rev, a, ka)
      ck.traced('scan.tree', cj)
      # expanded references: forward y_i = sum over ancestors k^depth a_anc ; reverse y_i = sum over descendants k^dist a_desc
      goals = []
      for i in range(n):
        for c in range(2):
          acc, p, w = a[i, c], par[i], k
          while p != -1:
            acc = acc + w * a[p, c]
            w = w * k
            p = par[p]
          goals.append(lift(yf[i, c]) == acc)
          acc = a[i, c]
          for j in range(i + 1, n):
            # is i an ancestor of j ?
            d, p = 0, j
            while p != -1 and p != i:
              p = par[p]
              d += 1
            if p == i:
              acc = acc + (k ** d) * a[j, c]
          goals.append(lift(yr[i, c]) == acc)
      ck.add(Ob('plumbing/scan.tree/parents=%s' % (par,), [], z3.And(goals), timeout=30, meta={'plumb': par}))
      cnt += 1
  # link_types: regroup by type and restore order for 'l', 'q', 'd' ranges
  from brax.scan import link_types as lt
  QW = {'f': 7, '1': 1, '2': 2, '3': 3}
  DW = {'f': 6, '1': 1, '2': 2, '3': 3}
  tmax = 5 if thorough else 4
  for n in range(1, tmax + 1):
    for ts in itertools.product('f123', repeat=n):
      s = ''.join(ts)
      nq, nd = sum(QW[t] for t in s), sum(DW[t] for t in s)
      sysd = types.SimpleNamespace(link_types=s, link_parents=tuple([-1] * n))
      l, q, d = core.reals('l', (n,)), core.reals('q', (nq,)), core.reals('d', (nd,))
      def f(l, q, d, k):
        def g(typ, l_, q_, d_):
          m = l_.shape[0]
          return l_ * k + q_.reshape(m, -1).sum(axis=1) + 2 * d_.reshape(m, -1)[:, 0], q_ * k + 1, d_ - k
        return lt(sysd, g, 'lqd', 'lqd', l, q, d)
      ctx = core.Ctx()
      (ol, oq, od), cj = core.run(ctx, f, l, q, d, ka)
      ck.traced('scan.link_types', cj)
      goals = []
      qi = di = 0
      for i, t in enumerate(s):
        goals.append(lift(ol[i]) == 2 * d[di] + sum(q[qi + j] for j in range(QW[t])) + k * l[i])
        qi += QW[t]
        di += DW[t]
      goals += [lift(oq[i]) == 1 + k * q[i] for i in range(nq)] + [lift(od[i]) == d[i] - k for i in range(nd)]
      ck.add(Ob('plumbing/scan.link_types/types=%s' % s, [], z3.And(goals), timeout=30, meta={'plumb': s}))
      cnt += 1
  ck.extra['plumbing_structures'] = cnt


def run(ck, a):
  import mujoco
  from brax import kinematics
  from brax.io import mjcf
  thorough = ck.tier == 'thorough'
  rng = random.Random(500 + ck.seed)
  nmodels = 40 if thorough else 14
  ck.bounds = {'direct models': nmodels, 'links': '1-6', 'stack words': 'all hinge/slide words of length 1-3, arbitrary (non-orthogonal) axes, offsets, rotated bodies, multiple roots',
               'symbolic': 'root positions, slide coordinates, all qd (all reals, stronger than [-1,1])', 'tier B': 'hinge half-angle sin/cos at exact rational points (|q| <= 2), '
               'root orientations exact rational unit quaternions', 'plumbing': 'scan.tree on ALL forests with <= %d links, scan.link_types on ALL type strings with <= %d links' % (6 if thorough else 5, 5 if thorough else 4),
               'outside': 'float round-off; quaternion sign; velocities of stacked/offset joints (known finding)'}
  ck.assumptions += ['reals for floats', 'MuJoCo kinematics as a term spec (spec/kin.py), validated against real mujoco each run',
                     'kinematic parameters of the loaded System replaced by the exact rationals they round (validated to 1e-12 each run)']
  plumbing(ck, thorough)
  replay_models = {}
  words = [''.join(w) for n in (1, 2, 3) for w in itertools.product('hs', repeat=n)]
  for mi in range(nmodels):
    # make sure every stack word and the special shapes occur
    if mi < len(words) and mi % 2 == 0:
      spec = models.random_forest(rng, nlinks=rng.randint(2, 3), free_root_p=0.5, stack_words=[words[mi], words[(mi * 5 + 1) % len(words)]])
    elif mi % 5 == 1:
      # several roots with uneven fan-out
      spec = models.random_forest(rng, nlinks=6, free_root_p=0.4, max_stack=2)
      par = [-1, 0, 0, -1, -1, 4]
      for b, p in zip(spec['bodies'], par):
        b['parent'] = p
      for b in spec['bodies']:
        if b['parent'] != -1 and any(j['type'] == 'free' for j in b['joints']):
          b['joints'] = [{'name': b['name'] + '_h', 'type': 'hinge', 'axis': (0, 1, 0), 'pos': (0, 0, 0), 'range': None}]
      spec = models.dfs_order(spec)
    elif mi % 5 == 3:
      # single joints at the link origin (velocity-claim class), rotated bodies
      spec = models.random_forest(rng, nlinks=rng.randint(2, 5), free_root_p=0.5, stack_words=['h', 's'])
      for b in spec['bodies']:
        for j in b['joints']:
          if j['type'] != 'free':
            j['pos'] = (0, 0, 0)
    else:
      spec = models.random_forest(rng, nlinks=rng.randint(1, 6), free_root_p=0.5, max_stack=3)
    xml = models.to_xml(spec)
    sys_ = mjcf.loads(xml)
    ck.oracle_validated += kin.validate(spec, xml, rng, n=4)
    ex = models.exact_params(spec)
    for kx, vx in ex.items():
      cur = sys_
      for part in kx.split('.'):
        cur = getattr(cur, part)
      if not np.allclose(np.asarray(cur), np.array(vx, dtype=float), atol=1e-12):
        ck.add(Ob('loader/%s of model %d equals the document' % (kx, mi), [], z3.BoolVal(False), timeout=5, meta={'xml': xml, 'loader': kx}))
    ctx = core.Ctx(fold=True)
    ctx.pair_cos_min = F(27, 50)      # slide coordinates in [-2,2]: cos(q/2) >= cos(1) > 0.54 (brax builds a quaternion from cos(q/2) even for slide dofs)
    ctx.lemma_timeout = 5000
    q, qd = symbolic_state(spec, rng, ctx)
    qa, qda = core.obj_array(q), core.obj_array(qd)
    pars = {kx: core.consts(vx) for kx, vx in ex.items()}
    keys = sorted(pars)
    def f(q, qd, *ps):
      s = sys_.tree_replace({kx: p for kx, p in zip(keys, ps)})
      x, xd = kinematics.forward(s, q, qd)
      return x.pos, x.rot, xd.vel, xd.ang
    args = (qa, qda) + tuple(pars[kx] for kx in keys)
    try:
      (xp, xr, xv, xa), cj = core.run(ctx, f, *args)
    except core.SXUnsupported as ex_:
      ck.harness_error('model %d: %s' % (mi, ex_))
      continue
    ck.traced('kinematics.forward', cj)
    if mi < 3:
      try:
        ck.validated += validate.validate(ctx, f, args, (xp, xr, xv, xa), n=4, seed=ck.seed + mi)
      except validate.ValidationError as e2:
        ck.harness_error('translator validation model %d: %s' % (mi, e2))
    ref = kin.forward(spec, q, qd, lambda c: ctx.sincos(core.s_div(c, 2)))
    tag = 'm%02d/%s' % (mi, '.'.join(''.join('f' if j['type'] == 'free' else j['type'][0] for j in b['joints']) for b in spec['bodies']))
    replay_models[tag] = (xml, spec, dict(ctx.angle_points), q, qd)
    for i, r in enumerate(ref):
      pe = [core.s_eq(xp[i, c], r['pos'][c]) for c in range(3)]
      qe_p = [core.s_eq(xr[i, c], r['quat'][c]) for c in range(4)]
      qe_m = [core.s_eq(xr[i, c], core.s_neg(r['quat'][c])) for c in range(4)]
      def conj(es):
        es = [e for e in es if not (isinstance(e, bool) and e)]
        if any(isinstance(e, bool) for e in es):
          return z3.BoolVal(False)
        return z3.And(es) if es else z3.BoolVal(True)
      goal = z3.And(conj(pe), z3.Or(conj(qe_p), conj(qe_m)))
      ck.add(Ob('pose/%s/link%d' % (tag, i), ctx.side, goal, timeout=60, meta={'tag': tag, 'link': i, 'what': 'pose'}))
      ve = conj([core.s_eq(xv[i, c], r['vel'][c]) for c in range(3)] + [core.s_eq(xa[i, c], r['ang'][c]) for c in range(3)])
      if r['single']:
        ck.add(Ob('velocity/%s/link%d' % (tag, i), ctx.side, ve, timeout=60, meta={'tag': tag, 'link': i, 'what': 'vel'}))
      else:
        ck.add(Ob('velocity(unclaimed)/%s/link%d' % (tag, i), ctx.side, ve, timeout=60, core=False, meta={'tag': tag, 'link': i, 'what': 'vel', 'finding_key': KNOWN_VEL}))
    if mi == 0:
      ck.add(Ob('twin/wrong-parent-frame/' + tag, ctx.side + [z3.Not(z3.And([lift(xp[len(ref) - 1, c]) == lift(core.s_add(ref[-1]['pos'][c], 1)) for c in range(3)]))], None, expect='sat', timeout=30))
      ck.samples.append({'model': tag, 'xml': xml, 'x.pos[last] term': str(xp[len(ref) - 1, 0])[:300]})

  def fv(s):
    s = str(s).rstrip('?')
    return float(F(s)) if '/' in s else float(s)

  def replay(ob):
    if 'plumb' in ob.meta:
      return True, {'structure': ob.meta['plumb'], 'model': ob.model, 'note': 'scan routing differs from the tree structure'}
    if 'loader' in ob.meta:
      return True, {'xml': ob.meta['xml'], 'field': ob.meta['loader']}
    tag = ob.meta['tag']
    xml, spec, apts, q, qd = replay_models[tag]
    m = {k: fv(v) for k, v in (ob.model or {}).items()}
    qn = []
    for c in q:
      if core.isc(c):
        qn.append(float(c))
      else:
        nm = c.decl().name()
        if nm in apts:
          sh, ch = apts[nm]
          qn.append(2 * math.atan2(float(sh), float(ch)))
        else:
          qn.append(m.get(nm, 0.0))
    vn = [m.get(c.decl().name(), 0.0) for c in qd]
    sys_ = mjcf.loads(xml)
    x, xd = kinematics.forward(sys_, jp.array(qn), jp.array(vn))
    mj = mujoco.MjModel.from_xml_string(xml)
    d = mujoco.MjData(mj)
    d.qpos[:], d.qvel[:] = qn, vn
    mujoco.mj_forward(mj, d)
    i = ob.meta['link']
    vel = np.zeros(6)
    mujoco.mj_objectVelocity(mj, d, mujoco.mjtObj.mjOBJ_XBODY.value, i + 1, vel, 0)
    info = {'xml': xml, 'q': qn, 'qd': vn, 'link': i, 'brax': {'pos': np.asarray(x.pos[i]).tolist(), 'rot': np.asarray(x.rot[i]).tolist(), 'vel': np.asarray(xd.vel[i]).tolist(),
                                                              'ang': np.asarray(xd.ang[i]).tolist()},
            'mujoco': {'xpos': d.xpos[i + 1].tolist(), 'xquat': d.xquat[i + 1].tolist(), 'vel': vel[3:].tolist(), 'ang': vel[:3].tolist()}}
    if ob.meta['what'] == 'pose':
      rq, xq = np.asarray(x.rot[i]), d.xquat[i + 1]
      bad = not (np.allclose(np.asarray(x.pos[i]), d.xpos[i + 1], atol=1e-8) and (np.allclose(rq, xq, atol=1e-8) or np.allclose(rq, -xq, atol=1e-8)))
    else:
      bad = not (np.allclose(np.asarray(xd.vel[i]), vel[3:], atol=1e-8) and np.allclose(np.asarray(xd.ang[i]), vel[:3], atol=1e-8))
    return bad, info
  for p in ('pose/', 'velocity', 'plumbing/', 'loader/'):
    ck.replayers[p] = replay
  ck.discharge()
  ck.cross_check(n=2)


if __name__ == '__main__':
  report.main('C01', run)
