"""C15 — episode / auto-reset / evaluation wrappers keep exact episode accounting.

Encoded: training.wrap (VmapWrapper + EpisodeWrapper + AutoResetWrapper), EvalWrapper, acting.actor_step / generate_unroll and the
traced inner unroll of acting.Evaluator, around a scripted JAX environment whose termination flags and rewards are SYMBOLIC
schedule arrays: the solver covers all termination schedules and all reward values of the unrolled length at once.
Oracle: a reference automaton (plain Python over the same symbols) for steps / truncation / done / reward / restart / eval metrics.
"""
import itertools
import sys
import types

import jax
import jax.numpy as jp
import numpy as np
import z3

from lib import report
from sx import core, validate
from sx.core import lift
from sx.solve import Ob


def import_acting():
  """brax.v1 cannot be imported on this jax; acting.py only uses it for two type aliases -> stub module (recorded as a stub)"""
  if 'brax.v1' not in sys.modules or not hasattr(sys.modules.get('brax.v1'), '__path__'):
    try:
      import brax.v1.envs  # noqa: F401
    except Exception:
      for k in [k for k in sys.modules if k.startswith('brax.v1')]:
        del sys.modules[k]
      v1 = types.ModuleType('brax.v1')
      v1.__path__ = []
      ev = types.ModuleType('brax.v1.envs')
      class _T:  # placeholders for typing.Union only
        pass
      ev.State, ev.Env, ev.Wrapper = _T, _T, _T
      v1.envs = ev
      sys.modules['brax.v1'], sys.modules['brax.v1.envs'] = v1, ev
  from brax.training import acting
  return acting


def make_env(D, R, keys_table):
  from brax.envs.base import Env, State

  class Scripted(Env):
    """done / reward of raw step number c (global clock, kept in info so auto-reset does not rewind it) of member m are D[m,c], R[m,c]"""

    def reset(self, rng):
      member = jp.argmax(jp.all(keys_table == rng, axis=-1)).astype(jp.int32)
      ps = {'member': member, 't': jp.zeros((), jp.int32)}
      return State(pipeline_state=ps, obs=jp.zeros((2,)), reward=jp.zeros(()), done=jp.zeros(()), metrics={}, info={'clock': jp.zeros((), jp.int32)})

    def step(self, state, action):
      c = state.info['clock'] + 1
      m = state.pipeline_state['member']
      t = state.pipeline_state['t'] + 1
      done = D[m, c]
      reward = R[m, c] + action[0]
      obs = jp.stack([t.astype(float), 1.0 + 0 * action[0]])
      info = dict(state.info)
      info['clock'] = c
      return state.replace(pipeline_state={'member': m, 't': t}, obs=obs, reward=reward, done=done, info=info)

    @property
    def observation_size(self):
      return 2

    @property
    def action_size(self):
      return 1

    @property
    def backend(self):
      return 'scripted'
  return Scripted()


def ite(c, a, b):
  return core.s_sel(c, b, a)     # If(c, a, b)


def reference(D, R, A, B, H, EL, AR):
  """reference automaton; D bool terms [B][clock], R real terms, A[w][m] action terms. Returns per wrapped step dicts of terms."""
  out = []
  st = [dict(steps=0, t=0, clock=0, prev_done=False, active=1, ep_steps=0, ep_rew=0) for _ in range(B)]
  for w in range(H):
    row = []
    for m in range(B):
      s = st[m]
      steps = ite(s['prev_done'], 0, s['steps'])
      rew, raw_done, t = 0, False, s['t']
      for _ in range(AR):
        s['clock'] += 1
        t = core.s_add(t, 1)
        raw_done = D[m][s['clock']]
        rew = core.s_add(rew, core.s_add(R[m][s['clock']], A[w][m]))
      steps = core.s_add(steps, AR)
      timeout = core.s_ge(steps, EL)
      done = core.s_or(timeout, raw_done)
      trunc = core.s_and(timeout, core.s_not(raw_done))
      t_after = ite(done, 0, t)
      obs0 = ite(done, 0, t)
      # eval accounting
      ep_steps = ite(core.s_eq(s['active'], 1), steps, s['ep_steps'])
      ep_rew = core.s_add(s['ep_rew'], core.s_mul(rew, s['active']))
      active = core.s_mul(s['active'], ite(done, 0, 1))
      s.update(steps=steps, t=t_after, prev_done=done, active=active, ep_steps=ep_steps, ep_rew=ep_rew)
      row.append(dict(done=ite(done, 1, 0), reward=rew, steps=steps, truncation=ite(trunc, 1, 0), t=t_after, obs0=obs0,
                      active=active, ep_steps=ep_steps, ep_rew=ep_rew))
    out.append(row)
  return out


def run(ck, a):
  from brax.envs.wrappers import training
  acting = import_acting()
  ck.stubs.add('brax.v1.envs replaced by an empty stub module (cannot be imported on the pinned jax; used by acting.py for type aliases only)')
  thorough = ck.tier == 'thorough'
  ELs = range(1, 5) if thorough else (1, 2, 3)      # histories of 3*EL raw steps: EL 5-6 (15-18 steps) leave z3 undecided within the caps
  ARs = (1, 2, 3) if thorough else (1, 2)
  B = 2
  ck.bounds = {'episode_length': list(ELs), 'action_repeat': list(ARs), 'batch': B, 'history': '3*episode_length raw steps (wrapped steps = ceil(3*EL/AR))',
               'schedules': 'ALL termination schedules and ALL real rewards of that length (symbolic), independent per member',
               'outside': 'longer histories; done flags other than 0/1; mid-repeat terminations are not latched by the wrappers (done of a wrapped step = done of its last sub-step), which the reference mirrors'}
  ck.assumptions += ['scripted deterministic environment (clock in info, counter in pipeline_state)', 'policy = affine function of the observation with symbolic weights']
  key = jax.random.PRNGKey(7)
  keys_table = jax.random.split(key, B)
  cfgs = [(EL, AR) for EL in ELs for AR in ARs]
  for EL, AR in cfgs:
    H = -(-3 * EL // AR)
    L = H * AR + 1
    Db, R = core.bools('D', (B, L)), core.reals('R', (B, L))
    W = core.reals('W', (2,))

    def policy_act(obs, W):
      return (obs[..., 0:1] * W[0] + W[1])

    def roll(Db, R, W):
      env = make_env(jp.where(Db, 1.0, 0.0), R, keys_table)
      wenv = training.EvalWrapper(training.wrap(env, episode_length=EL, action_repeat=AR))
      state = wenv.reset(keys_table)
      rows = [dict(done=state.done, steps=state.info['steps'], truncation=state.info['truncation'], obs=state.obs)]
      acts = []
      for w in range(H):
        action = policy_act(state.obs, W)
        acts.append(action[:, 0])
        state = wenv.step(state, action)
        em = state.info['eval_metrics']
        rows.append(dict(done=state.done, reward=state.reward, steps=state.info['steps'], truncation=state.info['truncation'], t=state.pipeline_state['t'],
                         obs=state.obs, active=em.active_episodes, ep_steps=em.episode_steps, ep_rew=em.episode_metrics['reward']))
      return rows, acts
    ctx = core.Ctx()
    (rows, acts), cj = core.run(ctx, roll, Db, R, W)
    ck.traced('training.wrap + EvalWrapper reset/step (scripted env)', cj)
    D = [[Db.arr[m, c] for c in range(L)] for m in range(B)]
    Rr = [[R[m, c] for c in range(L)] for m in range(B)]
    A = [[acts[w][m] for m in range(B)] for w in range(H)]
    ref = reference(D, Rr, A, B, H, EL, AR)
    tag = 'EL=%d/AR=%d/H=%d' % (EL, AR, H)
    def emit(name, goals):
      goals = [g for g in goals if not (isinstance(g, bool) and g)]
      bad = [g for g in goals if isinstance(g, bool)]
      ck.add(Ob(name, ctx.side, z3.BoolVal(False) if bad else (z3.And(goals) if goals else True), timeout=120, meta=dict(EL=EL, AR=AR, H=H, L=L)))
    # reset: done = 0, steps = 0, truncation = 0
    g0 = []
    for m in range(B):
      g0 += [core.s_eq(rows[0]['done'][m], 0), core.s_eq(rows[0]['steps'][m], 0), core.s_eq(rows[0]['truncation'][m], 0)]
    emit('wrappers==automaton/%s/reset' % tag, g0)
    for w in range(H):
      for m in range(B):
        got, exp = rows[w + 1], ref[w][m]
        gs = [core.s_eq(got[k][m], exp[k]) for k in ('done', 'reward', 'steps', 'truncation', 't', 'active', 'ep_steps', 'ep_rew')]
        gs.append(core.s_eq(got['obs'][m, 0], exp['obs0']))
        emit('wrappers==automaton/%s/step=%d/member=%d' % (tag, w, m), gs)
    if (EL, AR) in ((2, 1), (3, 2)):
      try:
        ck.validated += validate.validate(ctx, roll, (Db, R, W), (rows, acts), n=4, seed=ck.seed)
      except validate.ValidationError as ex:
        ck.harness_error('translator validation %s: %s' % (tag, ex))
      # mutation twins: truncation without the termination mask; steps not restarted
      m0 = 0
      wrong = z3.And([core.s_eq(rows[w + 1]['truncation'][m0], ite(core.s_ge(ref[w][m0]['steps'], EL), 1, 0)) for w in range(H)])
      ck.add(Ob('twin/truncation-ignores-termination/' + tag, ctx.side + [z3.Not(wrong)], None, expect='sat', timeout=60))
      ck.samples.append({'config': tag, 'done_after_step1_member0': str(rows[1]['done'][0])[:200], 'ep_reward_member0_end': str(rows[H]['ep_rew'][0])[:300]})
    # independence of members across episode boundaries: member 0's outputs do not mention member 1's schedule/rewards
    if AR == 1 or thorough:
      Db2, R2 = core.bools('E', (B, L)), core.reals('S', (B, L))
      Db2.arr[0, :] = Db.arr[0, :]
      R2[0, :] = R[0, :]
      ctx2 = core.Ctx()
      (rows2, _), _ = core.run(ctx2, roll, Db2, R2, W)
      eqs = []
      for w in range(H + 1):
        for k in rows[w]:
          c1, c2 = rows[w][k][0], rows2[w][k][0]
          c1, c2 = np.atleast_1d(c1).reshape(-1), np.atleast_1d(c2).reshape(-1)
          eqs += [core.s_eq(x, y) for x, y in zip(c1, c2)]
      eqs = [e for e in eqs if not (isinstance(e, bool) and e)]
      ck.add(Ob('member-independence/' + tag, [], z3.And(eqs) if eqs and not any(isinstance(e, bool) for e in eqs) else (not eqs), timeout=60, meta=dict(EL=EL, AR=AR)))

  # ---------------- acting.generate_unroll / actor_step: transitions chain and mirror the env
  for EL, AR in ([(2, 1), (3, 2)] if not thorough else [(2, 1), (3, 2), (4, 1), (5, 2)]):
    H = -(-3 * EL // AR)
    L = H * AR + 1
    Db, R = core.bools('D', (B, L)), core.reals('R', (B, L))
    W = core.reals('W', (2,))
    def unroll(Db, R, W):
      env = make_env(jp.where(Db, 1.0, 0.0), R, keys_table)
      wenv = training.wrap(env, episode_length=EL, action_repeat=AR)
      state = wenv.reset(keys_table)
      policy = lambda obs, k: (obs[..., 0:1] * W[0] + W[1], {})
      final, data = acting.generate_unroll(wenv, state, policy, key, H, extra_fields=('truncation', 'steps'))
      return final.obs, final.done, data.observation, data.next_observation, data.reward, data.discount, data.action, data.extras['state_extras']['truncation'], data.extras['state_extras']['steps']
    ctx = core.Ctx()
    (fobs, fdone, ob_, nob, rew, disc, act, tr, stp), cj = core.run(ctx, unroll, Db, R, W)
    ck.traced('acting.generate_unroll + actor_step', cj)
    D = [[Db.arr[m, c] for c in range(L)] for m in range(B)]
    Rr = [[R[m, c] for c in range(L)] for m in range(B)]
    A = [[act[w, m, 0] for m in range(B)] for w in range(H)]
    ref = reference(D, Rr, A, B, H, EL, AR)
    goals = []
    for w in range(H):
      for m in range(B):
        goals.append(core.s_eq(rew[w, m], ref[w][m]['reward']))
        goals.append(core.s_eq(disc[w, m], core.s_sub(1, ref[w][m]['done'])))
        goals.append(core.s_eq(tr[w, m], ref[w][m]['truncation']))
        goals.append(core.s_eq(stp[w, m], ref[w][m]['steps']))
        goals.append(core.s_eq(nob[w, m, 0], ref[w][m]['obs0']))
        goals.append(core.s_eq(act[w, m, 0], core.s_add(core.s_mul(ob_[w, m, 0], W[0]), W[1])))
        if w + 1 < H:
          goals += [core.s_eq(nob[w, m, j], ob_[w + 1, m, j]) for j in range(2)]      # transitions chain
        else:
          goals += [core.s_eq(nob[w, m, j], fobs[m, j]) for j in range(2)]
      if w == 0:
        goals += [core.s_eq(ob_[0, m, 0], 0) for m in range(B)]
    goals = [g for g in goals if not (isinstance(g, bool) and g)]
    ck.add(Ob('unroll-transitions/EL=%d/AR=%d' % (EL, AR), ctx.side, z3.BoolVal(False) if any(isinstance(g, bool) for g in goals) else z3.And(goals), timeout=120,
              meta=dict(EL=EL, AR=AR, H=H, L=L)))

  # ---------------- Evaluator: metrics accumulate each member's first episode only
  for EL, AR in ([(3, 1), (4, 2)] if not thorough else [(3, 1), (4, 2), (6, 3), (5, 1)]):
    H = EL // AR
    L = H * AR + 1
    Db, R = core.bools('D', (B, L)), core.reals('R', (B, L))
    W = core.reals('W', (2,))
    ekey = jax.random.PRNGKey(3)
    ktab = jax.random.split(ekey, B)
    def evalroll(Db, R, W):
      env = make_env(jp.where(Db, 1.0, 0.0), R, ktab)
      wenv = training.wrap(env, episode_length=EL, action_repeat=AR)
      ev = acting.Evaluator(wenv, lambda params: (lambda obs, k: (obs[..., 0:1] * params[0] + params[1], {})), num_eval_envs=B, episode_length=EL,
                            action_repeat=AR, key=ekey)
      st = ev._generate_eval_unroll(W, ekey)
      em = st.info['eval_metrics']
      return em.episode_metrics['reward'], em.episode_steps, em.active_episodes
    ctx = core.Ctx()
    (erew, esteps, eact), cj = core.run(ctx, evalroll, Db, R, W)
    ck.traced('acting.Evaluator inner unroll (generate_eval_unroll)', cj)
    # reference: actions depend on obs (= episode-local counter or 0 after reset)
    D = [[Db.arr[m, c] for c in range(L)] for m in range(B)]
    Rr = [[R[m, c] for c in range(L)] for m in range(B)]
    # the action at wrapped step w is W0*obs0_prev + W1 with obs0_prev from the reference itself: iterate
    A = [[None] * B for _ in range(H)]
    prev = [0] * B
    ref = None
    for w in range(H):
      for m in range(B):
        A[w][m] = core.s_add(core.s_mul(prev[m], W[0]), W[1])
      filled = [[A[x][m] if A[x][m] is not None else 0 for m in range(B)] for x in range(H)]
      ref = reference(D, Rr, filled, B, H, EL, AR)
      prev = [ref[w][m]['obs0'] for m in range(B)]
    goals = []
    for m in range(B):
      goals += [core.s_eq(erew[m], ref[H - 1][m]['ep_rew']), core.s_eq(esteps[m], ref[H - 1][m]['ep_steps']), core.s_eq(eact[m], ref[H - 1][m]['active'])]
    goals = [g for g in goals if not (isinstance(g, bool) and g)]
    ck.add(Ob('evaluator-first-episode-only/EL=%d/AR=%d' % (EL, AR), ctx.side, z3.BoolVal(False) if any(isinstance(g, bool) for g in goals) else z3.And(goals), timeout=120,
              meta=dict(EL=EL, AR=AR, H=H, L=L, evaluator=True)))

  # ---------------- replay: run the real wrappers at the model's schedule and compare with a plain-Python automaton
  def replay(ob):
    m = ob.model or {}
    EL, AR = ob.meta['EL'], ob.meta['AR']
    H = ob.meta.get('H', -(-3 * EL // AR))
    L = H * AR + 1
    def fv(s):
      s = str(s).rstrip('?')
      from fractions import Fraction
      return float(Fraction(s)) if '/' in s else float(s)
    Dn = np.array([[1.0 if m.get('D_%d_%d' % (i, c)) == 'true' else 0.0 for c in range(L)] for i in range(B)])
    Rn = np.array([[fv(m.get('R_%d_%d' % (i, c), 0)) for c in range(L)] for i in range(B)])
    Wn = np.array([fv(m.get('W_0', 0)), fv(m.get('W_1', 0))])
    kt = keys_table
    env = make_env(jp.array(Dn), jp.array(Rn), kt)
    wenv = training.EvalWrapper(training.wrap(env, episode_length=EL, action_repeat=AR))
    state = wenv.reset(kt)
    log, bad = [], False
    py = [dict(steps=0, t=0, clock=0, prev_done=False, active=1.0, ep_steps=0.0, ep_rew=0.0) for _ in range(B)]
    for w in range(H):
      action = state.obs[:, 0:1] * Wn[0] + Wn[1]
      an = np.asarray(action)[:, 0]
      state = wenv.step(state, action)
      for i in range(B):
        s = py[i]
        steps = 0 if s['prev_done'] else s['steps']
        rew, rd, t = 0.0, 0.0, s['t']
        for _ in range(AR):
          s['clock'] += 1
          t += 1
          rd = Dn[i, s['clock']]
          rew += Rn[i, s['clock']] + an[i]
        steps += AR
        to = steps >= EL
        done = 1.0 if (to or rd) else 0.0
        trunc = 1.0 if (to and not rd) else 0.0
        ep_steps = steps if s['active'] == 1.0 else s['ep_steps']
        ep_rew = s['ep_rew'] + rew * s['active']
        active = s['active'] * (1 - done)
        s.update(steps=steps, t=0 if done else t, prev_done=bool(done), active=active, ep_steps=ep_steps, ep_rew=ep_rew)
        em = state.info['eval_metrics']
        got = dict(done=float(state.done[i]), reward=float(state.reward[i]), steps=float(state.info['steps'][i]), truncation=float(state.info['truncation'][i]),
                   t=float(state.pipeline_state['t'][i]), obs0=float(state.obs[i, 0]), active=float(em.active_episodes[i]), ep_steps=float(em.episode_steps[i]),
                   ep_rew=float(em.episode_metrics['reward'][i]))
        exp = dict(done=done, reward=rew, steps=float(steps), truncation=trunc, t=float(s['t']), obs0=float(s['t']), active=active, ep_steps=float(ep_steps), ep_rew=ep_rew)
        for k in got:
          if abs(got[k] - exp[k]) > 1e-9:
            bad = True
            log.append('step %d member %d %s: observed %r expected %r' % (w, i, k, got[k], exp[k]))
    return bad, {'episode_length': EL, 'action_repeat': AR, 'done_schedule': Dn.tolist(), 'reward_schedule': Rn.tolist(), 'policy_weights': Wn.tolist(), 'log': log[:10]}
  for p in ('wrappers==', 'unroll-transitions', 'evaluator', 'member-independence'):
    ck.replayers[p] = replay
  ck.discharge()
  ck.cross_check(n=2)


if __name__ == '__main__':
  report.main('C15', run)
