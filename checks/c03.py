"""C03 — simulation is differentiable: gradients are finite and correct (partial claim, see bounds).

Encoded: the jaxprs that JAX's reverse-mode AD produces for the real code (including brax's custom JVP rules).
 (1) Correctness of brax's own derivative rules.  The only hand-written derivatives in brax are the custom JVPs of math.safe_arccos /
     safe_arcsin; every other derivative is JAX's.  The gradient jaxpr of the real function is compared with the gradient jaxpr of the same
     function with the custom rule replaced by JAX's built-in rule for arccos / arcsin (differential oracle), for all arguments strictly
     inside (-1, 1): on the two functions themselves, and through kinematics (forward -> world_to_joint -> inverse on a 2-hinge stack, which
     is where the spring / positional pipelines use them).
 (2) Finiteness = definedness.  Over the reals a NaN / inf can only come from a vanishing denominator.  The gradient jaxpr of a loss on one
     pipeline step is interpreted on a symbolic LINE through each singular input named by the property (body at rest, zero angular velocity,
     zero joint angle, resting contact with zero tangential velocity); every denominator the interpreter meets must be non-zero for all points of
     the line (solver); a vanishing one is replayed with the real jax.grad (float64) and reported only if the result is non-finite.
"""
import math
import random
from fractions import Fraction as F

import jax
import jax.numpy as jp
import numpy as np
import z3

from gen import models
from lib import report
from sx import core, validate
from sx.core import lift
from sx.fr import Fr
from sx.solve import Ob

KNOWN_FREE = 'generalized free joint at zero angular velocity'


def run(ck, a):
  from brax import kinematics
  from brax import math as bmath
  from brax.generalized import pipeline as gp
  from brax.io import mjcf
  from brax.positional import pipeline as pp
  from brax.spring import pipeline as sp
  thorough = ck.tier == 'thorough'
  rng = random.Random(300 + ck.seed)
  ck.bounds = {'correctness': 'custom JVP rules of safe_arccos / safe_arcsin vs JAX built-in rules, all x in (-1+1e-7, 1-1e-7); propagated through kinematics of a 2-hinge stack (Tier B angles)',
               'finiteness': 'one pipeline step (spring, positional, generalized), symbolic line (parameter in [-1,1]) through each singular input, 2-3 directions each',
               'models': 'free body; free body + hinge; resting sphere on a plane', 'outside': 'steps 2-5; gradient correctness of code that only uses the derivative rules of JAX itself '
               '(JAX is trusted for those); float round-off'}
  ck.assumptions += ['reals for floats', 'a non-finite gradient can only arise from a vanishing denominator (division, sqrt derivative, acos/asin/atan2 derivative)']

  # ---------------- (1) brax's custom derivative rules agree with the standard ones
  x = z3.Real('x')
  xa = np.empty((), dtype=object)
  xa[()] = x
  dom = [x > -1 + F(1, 10**7), x < 1 - F(1, 10**7)]
  for nm, fn, std in (('safe_arccos', bmath.safe_arccos, jp.arccos), ('safe_arcsin', bmath.safe_arcsin, jp.arcsin)):
    ctx = core.Ctx(fold=True, assume=dom)
    (g1,), cj = core.run(ctx, lambda v: (jax.grad(fn)(v),), xa)
    (g2,), _ = core.run(ctx, lambda v: (jax.grad(std)(v),), xa)
    ck.traced('jax.grad(math.%s)' % nm, cj)
    fr = Fr.for_ctx(ctx)
    side = [fr.formula(s_, _top=False) for s_ in ctx.side] + dom
    ck.add(Ob('custom-jvp/%s agrees with d/dx %s' % (nm, std.__name__), side, fr.formula(lift(g1[()]) == lift(g2[()])), timeout=60, meta={'fn': nm}))
    ck.add(Ob('twin/reach/custom-jvp/' + nm, side, None, expect='sat', timeout=30))
    ck.add(Ob('twin/wrong-sign/custom-jvp/' + nm, side + [z3.Not(fr.formula(lift(g1[()]) == -lift(g2[()])))], None, expect='sat', timeout=30))
  # through kinematics: gradient of the extracted joint angles of a 2-hinge stack w.r.t. q (Tier B angles, symbolic cotangent weights)
  from checks.c08 import build_model
  from checks.c01 import half_point, TS
  spec = build_model(rng, 'hh', True, 5, 1)
  xml = models.to_xml(spec)
  sys_ = mjcf.loads(xml)
  ex = models.exact_params(spec)
  keys = sorted(ex)
  w = core.reals('w', (2,))
  def loss(q, w, *ps):
    s = sys_.tree_replace({kx: p for kx, p in zip(keys, ps)})
    xx, xd = kinematics.forward(s, q, jp.zeros(s.qd_size()))
    j, jd, _, _ = kinematics.world_to_joint(s, xx, xd)
    q2, _ = kinematics.inverse(s, j, jd)
    return jp.dot(q2[7:], w)
  pars = [core.consts(ex[kx]) for kx in keys]
  for trial in range(2 if not thorough else 5):
    ctxk = core.Ctx(fold=False)
    q = [F(1, 10), F(-1, 5), F(1, 1)] + [F(repr(float(v))) for v in rng.choice(models.QUATS)]
    for k in range(2):
      v = z3.Real('q%d' % (7 + k))
      ctxk.angle_points[v.decl().name()] = half_point(rng.choice([t for t in TS if t != 0 and abs(t) <= F(1, 4)]))
      q.append(v)
    qa = core.obj_array(q)
    try:
      (gq,), cjk = core.run(ctxk, lambda q, w, *ps: (jax.grad(loss)(q, w, *ps),), qa, w, *pars)
      saved = (bmath.safe_arccos, bmath.safe_arcsin)
      bmath.safe_arccos, bmath.safe_arcsin = jp.arccos, jp.arcsin
      try:
        (gq2,), _ = core.run(ctxk, lambda q, w, *ps: (jax.grad(loss)(q, w, *ps),), qa, w, *pars)
      finally:
        bmath.safe_arccos, bmath.safe_arcsin = saved
    except (core.SXUnsupported, ZeroDivisionError, ValueError) as e_:
      ck.harness_error('kinematics gradient harness: %r' % (e_,))
      break
    ck.traced('jax.grad(kinematics.forward -> world_to_joint -> inverse)', cjk)
    ck.log('traced kinematics gradient trial %d folds=%s' % (trial, ctxk.fold_stats))
    frk = Fr.for_ctx(ctxk)
    sidek = [frk.formula(s_, _top=False) for s_ in ctxk.side]
    eqs = [core.s_eq(gq[7 + k], gq2[7 + k]) for k in range(2)]
    eqs = [e for e in eqs if not (isinstance(e, bool) and e)]
    goal = z3.BoolVal(False) if any(isinstance(e, bool) for e in eqs) else (z3.And([frk.formula(e) for e in eqs]) if eqs else True)
    ck.add(Ob('custom-jvp/through kinematics (2-hinge stack) trial %d' % trial, sidek, goal, timeout=120, meta={'fn': 'kin', 'xml': xml}))

  # ---------------- (2) finiteness on lines through singular inputs
  lam = z3.Real('lam')
  ldom = [lam >= -1, lam <= 1]
  def free_body():
    return {'bodies': [{'name': 'b', 'parent': -1, 'pos': (0, 0, 1), 'quat': (1, 0, 0, 0), 'joints': [{'name': 'jf', 'type': 'free'}],
                        'geoms': [{'type': 'sphere', 'size': (0.1,), 'contype': 0, 'conaffinity': 0}], 'mass': 1.5, 'inertia': (0.2, 0.25, 0.3), 'ipos': (0.05, 0, 0.02)}], 'actuators': [],
            'custom': ['<numeric name="matrix_inv_iterations" data="0"/>']}
  def ball_on_plane():
    s_ = free_body()
    s_['bodies'][0]['geoms'] = [{'type': 'sphere', 'size': (0.1,), 'contype': 1, 'conaffinity': 1}]
    s_['bodies'][0]['ipos'] = (0, 0, 0)
    s_['world_geoms'] = [{'type': 'plane', 'size': (5, 5, 1), 'pos': (0, 0, 0), 'quat': (1, 0, 0, 0), 'name': 'floor'}]
    return s_
  scenes = [('free body at rest', free_body(), [0, 0, 1, 1, 0, 0, 0], [0] * 6), ('free body, zero angular velocity', free_body(), [0, 0, 1, F(3, 5), 0, F(4, 5), 0], [F(1, 2), 0, F(-1, 5), 0, 0, 0]),
            ('sphere resting on the plane (zero tangential velocity)', ball_on_plane(), [0, 0, F(99, 1000), 1, 0, 0, 0], [0, 0, F(-1, 10), 0, 0, 0])]
  dirs = [[F(1, 2), 0, 0, 1, F(1, 3), F(-1, 2)]] if not thorough else [[0, 0, 0, 1, 0, 0], [F(1, 2), 0, 0, 0, F(1, 3), F(-1, 2)], [0, 1, 0, 0, 0, 0], [0, 0, 1, F(1, 5), 0, 0]]
  pipes = [('spring', sp), ('positional', pp), ('generalized', gp)]
  wv = [F(3, 10), F(-7, 10), F(1, 2)]
  replay = {}
  for sname, spec_, q0, v0 in scenes:
    xml_ = models.to_xml(spec_)
    s0 = mjcf.loads(xml_)
    for pname, mod in pipes:
      if 'plane' in sname and pname == 'generalized':
        continue
      def lossf(q, qd):
        st = mod.init(s0, q, qd)
        o = mod.step(s0, st, jp.zeros(0))
        return jp.sum(o.x.pos[0] * jp.array([0.3, -0.7, 0.5])) + jp.sum(o.xd.vel[0]) + jp.sum(o.qd * 0.2) + jp.sum(o.q[:3] * 0.1) + jp.sum(o.q[3:7] * jp.array([0.2, -0.4, 0.6, 0.3]))
      for di, dvec in enumerate(dirs):
        ctx = core.Ctx(fold=False, assume=ldom)
        q = core.obj_array(list(q0))
        qd = core.obj_array([core.s_add(v0[k], core.s_mul(dvec[k], lam)) for k in range(6)])
        tag = '%s/%s/dir%d' % (pname, sname, di)
        replay[tag] = (xml_, pname, [float(x_) for x_ in q0], [float(x_) for x_ in v0], [float(x_) for x_ in dvec])
        try:
          (gq, gv), cj = core.run(ctx, lambda q, qd: jax.grad(lossf, argnums=(0, 1))(q, qd), q, qd)
        except ZeroDivisionError as e_:
          # a denominator is identically zero on the whole line: the gradient is undefined there
          ob = Ob('finite-gradient/%s (concrete zero denominator while tracing)' % tag, ldom, z3.BoolVal(False), timeout=5, meta={'tag': tag, 'finding_key': KNOWN_FREE if pname == 'generalized' else tag})
          ck.add(ob)
          continue
        except (core.SXUnsupported, ValueError) as e_:
          ck.notes.append('finiteness %s not encodable: %r' % (tag, e_))
          continue
        ck.traced('jax.grad(%s.pipeline.init+step loss)' % pname, cj)
        ck.log('traced grad %s: %d eqns, %d denominators' % (tag, core.n_eqns(cj.jaxpr), len(ctx.defined)))
        fr = Fr.for_ctx(ctx)
        side = [fr.formula(s_, _top=False) for s_ in ctx.side] + ldom
        dens = {}
        for kind, dterm in ctx.defined:
          dens[dterm.get_id()] = dterm
        for yv, arg in ctx.sqrts.values():
          pass
        ck.extra['denominators_examined'] = ck.extra.get('denominators_examined', 0) + len(dens)
        if dens:
          # the singular input itself (lam = 0: the very point the property names): every denominator must be non-zero THERE.  With lam pinned the
          # query is ground up to the sqrt variables, so it is decided for all three pipelines (core), also where the whole-line obligation is not.
          pin = [(lam, z3.RealVal(0))]
          side0 = [z3.simplify(z3.substitute(s_, *pin)) for s_ in side]
          g0 = z3.And([z3.simplify(z3.substitute(fr.formula(dt_ != 0), *pin)) for dt_ in dens.values()])
          ck.add(Ob('finite-gradient/%s: all %d denominators non-zero AT the singular input' % (tag, len(dens)), side0, g0, timeout=120, core=(pname != 'generalized'),
                    meta={'tag': tag, 'at_singular_point': True}))      # generalized: safe_norm's double-where leaves an UNSELECTED zero denominator; non-vanishing is sufficient, not necessary there (extended; a sat answer is replayed with the real jax.grad)
          for k_, dt_ in enumerate(dens.values()):
            ck.add(Ob('finite-gradient/%s: denominator %d of %d non-zero on the line' % (tag, k_, len(dens)), side, fr.formula(dt_ != 0), timeout=60,
                      core=(pname == 'spring'), meta={'tag': tag}))
        else:
          ck.add(Ob('finite-gradient/%s: no symbolic denominators' % tag, side, True, timeout=5, meta={'tag': tag}))
      if pname == 'spring' and 'rest' in sname:
        ck.samples.append({'scene': sname, 'pipeline': pname, 'xml': xml_})

  # ---------------- (3) unit level: derivative of the generalized free-joint position update at ZERO angular velocity
  # q' = q (x) exp(dt w / 2) is smooth in w; its derivative at w = 0 is  d q'/d w_i = dt/2 * q (x) (0, e_i).  The code reaches it through a guarded norm
  # (safe_norm + 1e-8); the Jacobian jaxpr JAX produces for the real function is interpreted at w = 0 exactly (tiny ground angles get Taylor enclosures)
  # and compared with the closed form to 1e-6 relative.  This is the one place where brax differentiates a smooth map through a norm guard.
  from brax.generalized import integrator as gint
  from spec import kin
  sysf = mjcf.loads(models.to_xml(free_body()))
  dtf = F(repr(float(sysf.opt.timestep)))
  for qi, quat in enumerate([(1, 0, 0, 0), (F(3, 5), 0, F(4, 5), 0), (F(1, 2), F(1, 2), F(1, 2), F(1, 2))][:3 if thorough else 2]):
    ctxu = core.Ctx(fold=False)
    ctxu.tight_trig = True
    fq = lambda q_, w_: gint._integrate_q_free(sysf, q_, jp.concatenate([jp.zeros(3), w_]))[3:7]
    try:
      (J,), cju = core.run(ctxu, lambda q_, w_: (jax.jacfwd(fq, argnums=1)(q_, w_),), core.obj_array([0, 0, 1] + list(quat)), core.obj_array([0, 0, 0]))
    except (core.SXUnsupported, ZeroDivisionError, ValueError) as e_:
      ck.harness_error('free-joint integrator Jacobian at zero spin: %r' % (e_,))
      continue
    ck.traced('jax.jacfwd(generalized.integrator._integrate_q_free) w.r.t. angular velocity', cju)
    fru = Fr.for_ctx(ctxu)
    sideu = [fru.formula(s_, _top=False) for s_ in ctxu.side]
    tol = dtf / 10**6
    goals = []
    for i in range(3):
      ref = kin.qmul(list(quat), [0] + [1 if c == i else 0 for c in range(3)])
      for k in range(4):
        refv = core.s_mul(dtf / 2, ref[k])
        goals += [fru.formula(lift(J[k, i]) - lift(refv) <= tol), fru.formula(lift(J[k, i]) - lift(refv) >= -tol)]
    ck.add(Ob('gradient-correct/free-joint position update at zero angular velocity: dq\'/dw == dt/2 q (x) (0, e_i)/quat%d' % qi, sideu, z3.And(goals), timeout=60,
              meta={'fn': 'freeint', 'quat': [float(x_) for x_ in quat]}))
    if qi == 0:
      ck.add(Ob('twin/reach/free-joint Jacobian', sideu, None, expect='sat', timeout=30))
      ck.add(Ob('twin/zero-derivative/free-joint Jacobian', sideu + [z3.Not(z3.And([fru.formula(lift(J[k, i]) == 0) for k in range(4) for i in range(3)]))], None, expect='sat', timeout=30))

  def rep(ob):
    if ob.meta.get('fn') == 'freeint':
      qf = jp.array([0., 0, 1] + ob.meta['quat'])
      f64 = lambda w_: gint._integrate_q_free(sysf, qf, jp.concatenate([jp.zeros(3), w_]))[3:7]
      Jn = np.asarray(jax.jacfwd(f64)(jp.zeros(3)))
      h = 1e-5
      fd = np.stack([(np.asarray(f64(jp.array(h * e_))) - np.asarray(f64(jp.array(-h * e_)))) / (2 * h) for e_ in np.eye(3)], axis=1)
      bad = bool(np.abs(Jn - fd).max() > 1e-3 * float(sysf.opt.timestep))
      return bad, {'quat': ob.meta['quat'], 'jacobian_at_zero_spin': Jn.tolist(), 'central_difference': fd.tolist()}
    if ob.meta.get('fn') in ('safe_arccos', 'safe_arcsin'):
      fn = getattr(bmath, ob.meta['fn'])
      std = jp.arccos if 'cos' in ob.meta['fn'] else jp.arcsin
      for xv in (-0.9, -0.3, 0.0, 0.4, 0.95):
        g1, g2 = float(jax.grad(fn)(xv)), float(jax.grad(std)(xv))
        if abs(g1 - g2) > 1e-9:
          return True, {'x': xv, 'grad_custom_rule': g1, 'grad_standard': g2}
      return False, {}
    if ob.meta.get('fn') == 'kin':
      s = mjcf.loads(ob.meta['xml'])
      r = np.random.RandomState(0)
      def loss_(q):
        xx, xd = kinematics.forward(s, q, jp.zeros(s.qd_size()))
        j, jd, _, _ = kinematics.world_to_joint(s, xx, xd)
        q2, _ = kinematics.inverse(s, j, jd)
        return q2[7] * 0.3 + q2[8] * 0.7
      for _ in range(4):
        q = np.array(s.init_q)
        q[7:] = r.uniform(-0.8, 0.8, 2)
        g = np.asarray(jax.grad(loss_)(jp.array(q)))
        fd = np.array([(float(loss_(jp.array(q + 1e-6 * e))) - float(loss_(jp.array(q - 1e-6 * e)))) / 2e-6 for e in np.eye(len(q))])
        if np.abs(g[7:] - fd[7:]).max() > 1e-5:
          return True, {'q': q.tolist(), 'grad': g.tolist(), 'central_difference': fd.tolist()}
      return False, {}
    tag = ob.meta['tag']
    xml_, pname, q0, v0, dvec = replay[tag]
    mod = dict(pipes)[pname]
    s0 = mjcf.loads(xml_)
    def lossf(q, qd):
      st = mod.init(s0, q, qd)
      o = mod.step(s0, st, jp.zeros(0))
      return jp.sum(o.x.pos[0] * jp.array([0.3, -0.7, 0.5])) + jp.sum(o.xd.vel[0]) + jp.sum(o.qd * 0.2) + jp.sum(o.q[:3] * 0.1) + jp.sum(o.q[3:7] * jp.array([0.2, -0.4, 0.6, 0.3]))
    lamv = 0.0
    m = ob.model or {}
    if 'lam' in m:
      sv = str(m['lam']).rstrip('?')
      lamv = float(F(sv)) if '/' in sv else float(sv)
    for lv in (lamv, 0.0):
      qd = np.array(v0) + lv * np.array(dvec)
      g = jax.grad(lossf, argnums=(0, 1))(jp.array(q0), jp.array(qd))
      bad = not (np.all(np.isfinite(np.asarray(g[0]))) and np.all(np.isfinite(np.asarray(g[1]))))
      if bad:
        return True, {'xml': xml_, 'pipeline': pname, 'q': q0, 'qd': qd.tolist(), 'grad_q': np.asarray(g[0]).tolist(), 'grad_qd': np.asarray(g[1]).tolist()}
    return False, {'why': 'gradient finite at the solver point and at the singular point'}
  ck.replayers['custom-jvp'] = rep
  ck.replayers['gradient-correct'] = rep
  ck.replayers['finite-gradient'] = rep
  ck.discharge()
  ck.cross_check(n=1, timeout=10)


if __name__ == '__main__':
  report.main('C03', run)
