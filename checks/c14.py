"""C14 — unsupported models are rejected (decided by solver); accepted models load consistently (checked concretely only).

Encoded (FX): the real source of mjcf.validate_model executed on a stand-in MjModel whose discrete fields (integrator, cone, joint / actuator /
geom types, stack structure, contype/conaffinity) are enumerated and whose continuous fields (wind, impratio, geom_fluid, qpos0, jnt_pos,
jnt_range, jnt_stiffness, geom_solmix, geom_priority, geom_size) are SYMBOLIC.  For every feasible path:  returns => not unsupported(mj),
with `unsupported` the declarative list of the property written as a z3 predicate over the same fields.
Structural: each native pipeline.init reaches the validator (recording stub).
Concrete only (not solver-decided, reported separately): sizes / link types / parents / actuator ids / init pose of systems loaded by the
real mjcf.loads from generator models agree with the mujoco.MjModel compiled from the same XML.
"""
import itertools
import random
import types

import numpy as np
import z3

from fx import core as fx
from gen import models
from lib import report
from sx.solve import Ob

Q_WIDTH = {0: 7, 1: 4, 2: 1, 3: 1}


def fake_model(jnt_type, jnt_bodyid, act, geom_type, con, opt=(0, 0)):
  """stand-in for mujoco.MjModel: only the fields validate_model reads. Returns (mj, vars, unsupported predicate)"""
  nj, nu, ng = len(jnt_type), len(act), len(geom_type)
  S = fx.syms
  mj = types.SimpleNamespace()
  mj.opt = types.SimpleNamespace(integrator=opt[0], cone=opt[1], wind=S('wind', (3,)), impratio=S('impratio'))
  mj.geom_fluid = S('fluid', (ng, 2))          # real width is 12; two columns suffice for `(x != 0).any()`
  mj.actuator_biastype = np.array([a[0] for a in act], dtype=np.int32)
  mj.actuator_gaintype = np.array([a[1] for a in act], dtype=np.int32)
  mj.actuator_trntype = np.array([a[2] for a in act], dtype=np.int32)
  mj.geom_solmix = S('solmix', (ng,))
  mj.geom_priority = S('prio', (ng,))
  mj.jnt_type = np.array(jnt_type, dtype=np.int32)
  nq = sum(Q_WIDTH[t] for t in jnt_type)
  mj.qpos0 = S('qpos0', (nq,))
  mj.jnt_bodyid = np.array(jnt_bodyid, dtype=np.int32)
  mj.jnt_pos = S('jpos', (nj, 3))
  mj.jnt_range = S('jrange', (nj, 2))
  mj.jnt_limited = np.array([1 if (i % 2 == 0) else 0 for i in range(nj)], dtype=np.uint8)
  mj.jnt_stiffness = S('jstiff', (nj,))
  mj.geom_type = np.array(geom_type, dtype=np.int32)
  mj.geom_contype = np.array([c[0] for c in con], dtype=np.int32)
  mj.geom_conaffinity = np.array([c[1] for c in con], dtype=np.int32)
  mj.geom_size = S('gsize', (ng, 3))
  # derived index tables a validator may legitimately consult
  D_WIDTH = {0: 6, 1: 3, 2: 1, 3: 1}
  mj.njnt, mj.nu, mj.ngeom, mj.nq = nj, nu, ng, nq
  mj.nv = sum(D_WIDTH[t] for t in jnt_type)
  mj.jnt_qposadr = np.array([sum(Q_WIDTH[t] for t in jnt_type[:j]) for j in range(nj)], dtype=np.int32)
  mj.jnt_dofadr = np.array([sum(D_WIDTH[t] for t in jnt_type[:j]) for j in range(nj)], dtype=np.int32)
  mj.dof_jntid = np.array([j for j, t in enumerate(jnt_type) for _ in range(D_WIDTH[t])], dtype=np.int32)
  mj.dof_bodyid = np.array([jnt_bodyid[j] for j in mj.dof_jntid], dtype=np.int32)
  mj.nbody = (max(jnt_bodyid) + 1) if nj else 1
  mj.body_jntnum = np.array([sum(1 for b in jnt_bodyid if b == i) for i in range(mj.nbody)], dtype=np.int32)
  mj.body_jntadr = np.array([next((j for j, b in enumerate(jnt_bodyid) if b == i), -1) for i in range(mj.nbody)], dtype=np.int32)
  mj.body_parentid = np.array([max(i - 1, 0) for i in range(mj.nbody)], dtype=np.int32)
  mj.jnt_axis = S('jaxis', (nj, 3))
  mj.actuator_trnid = np.array([[k % max(nj, 1), -1] for k in range(nu)], dtype=np.int32)
  mj.geom_bodyid = np.array([min(i, mj.nbody - 1) for i in range(ng)], dtype=np.int32)
  T = fx.term
  U = []
  U.append(z3.BoolVal(opt[0] != 0))
  U.append(z3.BoolVal(opt[1] != 0))
  U += [T(x) != 0 for x in mj.geom_fluid.reshape(-1)] + [T(x) != 0 for x in mj.opt.wind]
  U.append(T(mj.opt.impratio) != 1)
  U += [z3.BoolVal(int(b) not in (0, 1)) for b in mj.actuator_biastype] + [z3.BoolVal(int(g) != 0) for g in mj.actuator_gaintype]
  U += [z3.BoolVal(int(t) != 0) for t in mj.actuator_trntype]
  U += [T(mj.geom_solmix[i]) != T(mj.geom_solmix[0]) for i in range(1, ng)] + [T(mj.geom_priority[i]) != T(mj.geom_priority[0]) for i in range(1, ng)]
  adr = 0
  for j, t in enumerate(jnt_type):
    if t != 0:
      U += [T(mj.qpos0[adr + k]) != 0 for k in range(Q_WIDTH[t])]       # joint reference offsets (hinge/slide ref; ball quaternion part)
    adr += Q_WIDTH[t]
  for b, grp in itertools.groupby(range(nj), key=lambda j: jnt_bodyid[j]):
    grp = list(grp)
    for j in grp[1:]:
      U += [T(mj.jnt_pos[j, k]) != T(mj.jnt_pos[grp[0], k]) for k in range(3)]   # stacked joints with different anchors
    typs = [jnt_type[j] for j in grp]
    U.append(z3.BoolVal((0 in typs and len(typs) > 1) or (1 in typs)))      # stacked free joints / ball joints
  for j, t in enumerate(jnt_type):
    if t == 0:
      U.append(T(mj.jnt_stiffness[j]) > 0)                                    # free-joint stiffness
  for i, t in enumerate(geom_type):
    if t == 5 and (con[i][0] != 0 or con[i][1] != 0):
      U.append(T(mj.geom_size[i, 1]) > z3.RealVal('0.001'))                    # colliding long cylinder
  return mj, z3.Or(U)


def concrete_load_check(spec_xml):
  """accepted models load consistently (concrete, through the real loader and real MuJoCo). Returns list of mismatches."""
  import mujoco
  from brax.io import mjcf
  mj = mujoco.MjModel.from_xml_string(spec_xml)
  sys_ = mjcf.loads(spec_xml)
  bad = []
  if (sys_.q_size(), sys_.qd_size(), sys_.act_size(), sys_.num_links()) != (mj.nq, mj.nv, mj.nu, mj.nbody - 1):
    bad.append('sizes %r vs mujoco %r' % ((sys_.q_size(), sys_.qd_size(), sys_.act_size(), sys_.num_links()), (mj.nq, mj.nv, mj.nu, mj.nbody - 1)))
  exp_types = ''
  for b in range(1, mj.nbody):
    js = [j for j in range(mj.njnt) if mj.jnt_bodyid[j] == b]
    exp_types += 'f' if (len(js) == 1 and mj.jnt_type[js[0]] == 0) else str(len(js))
  if sys_.link_types != exp_types:
    bad.append('link_types %r vs %r' % (sys_.link_types, exp_types))
  par = tuple(int(p) - 1 for p in mj.body_parentid[1:])
  if tuple(sys_.link_parents) != par or any(p >= i for i, p in enumerate(par)):
    bad.append('link_parents %r vs %r' % (sys_.link_parents, par))
  if mj.nu:
    tr = mj.actuator_trnid[:, 0]
    if not (np.array_equal(np.asarray(sys_.actuator.q_id), mj.jnt_qposadr[tr]) and np.array_equal(np.asarray(sys_.actuator.qd_id), mj.jnt_dofadr[tr])):
      bad.append('actuator indices')
  if not np.allclose(np.asarray(sys_.init_q), mj.qpos0):
    bad.append('init_q')
  for i in range(mj.nbody - 1):
    free = exp_types[i] == 'f'
    exp_pos = np.zeros(3) if free else mj.body_pos[i + 1]
    exp_rot = np.array([1., 0, 0, 0]) if free else mj.body_quat[i + 1]
    if not (np.allclose(np.asarray(sys_.link.transform.pos[i]), exp_pos) and np.allclose(np.asarray(sys_.link.transform.rot[i]), exp_rot)):
      bad.append('link %d transform %s/%s expected %s/%s' % (i, np.asarray(sys_.link.transform.pos[i]).tolist(), np.asarray(sys_.link.transform.rot[i]).tolist(),
                                                             exp_pos.tolist(), exp_rot.tolist()))
  # initial pose agrees with the source model (world positions at init_q)
  from brax import kinematics
  import jax.numpy as jp
  x, _ = kinematics.forward(sys_, sys_.init_q, jp.zeros(sys_.qd_size()))
  d = mujoco.MjData(mj)
  mujoco.mj_forward(mj, d)
  if not np.allclose(np.asarray(x.pos), d.xpos[1:], atol=1e-6):
    bad.append('initial link positions differ from mujoco')
  return bad


def run(ck, a):
  import jax.numpy as jp
  from brax.io import mjcf
  thorough = ck.tier == 'thorough'
  proxy = fx.NumpyProxy()
  saved = mjcf.np
  ck.bounds = {'joints': '<=3 (types free/ball/slide/hinge, all stack structures)', 'actuators': '<=2', 'geoms': '<=3 (sphere/capsule/cylinder, contype/conaffinity in {0,1})',
               'continuous fields': 'symbolic (all reals)', 'outside': 'load consistency (second sentence of the property) goes through MuJoCo C code: exercised concretely on generator models only'}
  ck.assumptions += ['stand-in MjModel exposes exactly the fields validate_model reads (a newly read field makes the run fail with AttributeError -> harness error, not a pass)']
  joint_cfgs = [((3,), (1,)), ((2,), (1,)), ((0,), (1,)), ((1,), (1,)), ((3, 3), (1, 1)), ((2, 3), (1, 1)), ((3, 3), (1, 2)), ((0, 3), (1, 2)), ((0, 3), (1, 1)),
                ((3, 2, 3), (1, 1, 1)), ((0, 3, 2), (1, 2, 2)), ((3, 1), (1, 2)), ((3, 0), (1, 2)), ((2, 2, 3), (1, 2, 2))]
  act_cfgs = [(), ((0, 0, 0),), ((1, 0, 0), (0, 0, 0)), ((2, 0, 0),), ((0, 1, 0),), ((0, 0, 1),), ((1, 0, 0), (0, 0, 3))]
  geom_cfgs = [((2,), ((1, 1),)), ((2, 3), ((1, 1), (0, 0))), ((5,), ((1, 1),)), ((5,), ((0, 0),)), ((5,), ((0, 1),)), ((5, 2), ((1, 0), (1, 1))), ((2, 3, 5), ((1, 1), (1, 1), (0, 1)))]
  opts = [(0, 0), (1, 0), (0, 1), (2, 0)]
  cfgs = []
  for jc in joint_cfgs:
    cfgs.append((jc, act_cfgs[1], geom_cfgs[0], opts[0]))
  for ac in act_cfgs:
    cfgs.append((joint_cfgs[4], ac, geom_cfgs[1], opts[0]))
  for gc in geom_cfgs:
    cfgs.append((joint_cfgs[5], act_cfgs[1], gc, opts[0]))
  for op in opts[1:]:
    cfgs.append((joint_cfgs[0], act_cfgs[1], geom_cfgs[0], op))
  if thorough:
    for jc, ac, gc in itertools.product(joint_cfgs, act_cfgs[:4], geom_cfgs[:5]):
      cfgs.append((jc, ac, gc, opts[0]))
  seen = set()
  npaths = 0
  try:
    mjcf.np = proxy
    for ci, (jc, ac, gc, op) in enumerate(cfgs):
      if (jc, ac, gc, op) in seen:
        continue
      seen.add((jc, ac, gc, op))
      tag = 'j=%s@%s/a=%s/g=%s%s/opt=%s' % (''.join(map(str, jc[0])), ''.join(map(str, jc[1])), ','.join(''.join(map(str, x)) for x in ac), ''.join(map(str, gc[0])),
                                            ''.join('%d%d' % c for c in gc[1]), '%d%d' % op)
      holder = {}
      def go():
        mj, U = fake_model(jc[0], jc[1], ac, gc[0], gc[1], op)
        holder['U'] = U
        return mjcf.validate_model(mj)
      drv = fx.Driver(pre=[], timeout_ms=5000)
      for pi, (pc, (kind, val)) in enumerate(drv.paths(go)):
        npaths += 1
        U = holder['U']
        if kind == 'raise' and not isinstance(val, (NotImplementedError, RuntimeError)):
          ck.harness_error('validate_model crashed on the stand-in model %s: %r' % (tag, val))
          continue
        if kind == 'ok':
          ck.add(Ob('accepted=>supported/%s/path%d' % (tag, pi), pc, z3.Not(U), timeout=20, meta={'tag': tag, 'cfg': (jc, ac, gc, op)}))
        else:
          ck.add(Ob('info/rejected=>unsupported/%s/path%d' % (tag, pi), pc, U, timeout=20, core=False, kind='lemma', meta={'tag': tag, 'cfg': (jc, ac, gc, op)}))
      if ci == 0:
        ck.add(Ob('twin/reach-accepting-path/' + tag, [], None, expect='sat', timeout=10))
      ck.extra['fx_feasibility_queries'] = ck.extra.get('fx_feasibility_queries', 0) + drv.queries
      if drv.unknown:
        ck.harness_error('FX feasibility unknown on %s' % tag)
  finally:
    mjcf.np = saved
  ck.functions['mjcf.validate_model (FX paths)'] = npaths
  ck.extra['paths_explored'] = npaths
  # mutation twin: an oracle that forgets wind must be caught on an accepting path
  mjw, Uw = None, None

  # ---- every native pipeline.init reaches the validator
  from brax.generalized import pipeline as gp
  from brax.positional import pipeline as pp
  from brax.spring import pipeline as sp
  rng = random.Random(ck.seed)
  spec = models.random_forest(rng, nlinks=2, free_root_p=1.0, stack_words=['h'], limits_p=1.0)
  xml = models.to_xml(spec)
  sys_ = mjcf.loads(xml)
  calls = []
  orig_v = mjcf.validate_model
  def rec(m):
    calls.append(m)
    return orig_v(m)
  for nm, mod in (('generalized', gp), ('spring', sp), ('positional', pp)):
    calls.clear()
    mjcf.validate_model = rec
    rejected = None
    try:
      mod.init(sys_, sys_.init_q, jp.zeros(sys_.qd_size()))
    except (NotImplementedError, RuntimeError) as ex:
      rejected = ex
    finally:
      mjcf.validate_model = orig_v
    ok = len(calls) >= 1 and calls[0] is sys_.mj_model
    ck.add(Ob('pipeline-init-calls-validator/' + nm, [], z3.BoolVal(ok), timeout=5, meta={'tag': nm, 'structural': True}))
    if rejected is not None:
      ck.add(Ob('concrete-load-consistency/clean generator model rejected by %s.init: %r' % (nm, rejected), [], z3.BoolVal(False), timeout=5,
                meta={'tag': 'load', 'xml': xml, 'bad': ['%s.pipeline.init rejected a supported model: %r' % (nm, rejected)]}))

  # ---- concrete side-check (NOT solver-decided): accepted generator models load consistently; unsupported injections are rejected end to end
  mism = []
  nload = 40 if thorough else 12
  for i in range(nload):
    spec = models.random_forest(rng, nlinks=rng.randint(1, 5), free_root_p=0.5, max_stack=3, actuators=rng.randint(0, 3), limits_p=0.3)
    # make free bodies appear after stacked links regularly
    if i % 3 == 0:
      spec['bodies'].append({'name': 'late_free', 'parent': -1, 'pos': (0.3, 0.2, 0.5), 'quat': (0.6, 0, 0.8, 0), 'joints': [{'name': 'jlf', 'type': 'free'}],
                             'geoms': [{'type': 'sphere', 'size': (0.1,), 'contype': 0, 'conaffinity': 0}], 'mass': 1.0, 'inertia': (0.2, 0.2, 0.2)})
    xmli = models.to_xml(spec)
    try:
      bad = concrete_load_check(xmli)
    except Exception as ex:  # a supported generator model that cannot be loaded is a mismatch, not a harness problem
      bad = ['loading / initialising a supported model raised %r' % (ex,)]
    if bad:
      mism.append((xmli, bad))
  ck.extra['concrete_load_checks'] = nload
  ck.extra['concrete_load_mismatches'] = len(mism)
  inj = [('<option integrator="RK4"/>', None), ('<option cone="elliptic"/>', None), ('<option wind="1 0 0"/>', None), ('<option impratio="2"/>', None)]
  e2e = 0
  for line, _ in inj:
    x2 = xml.replace('<worldbody>', line + '\n  <worldbody>')
    try:
      s2 = mjcf.loads(x2)
    except Exception as ex:
      mism.append((x2, ['loads raised %r' % (ex,)]))
      continue
    for nm, mod in (('generalized', gp), ('spring', sp), ('positional', pp)):
      try:
        mod.init(s2, s2.init_q, jp.zeros(s2.qd_size()))
        mism.append((x2, ['%s.init accepted %s' % (nm, line)]))
      except (NotImplementedError, RuntimeError):
        e2e += 1
  ck.extra['concrete_end_to_end_rejections'] = e2e
  ck.notes.append('concrete_* counters are executions of the real loader/pipelines on generator models (sampling, not solver-decided): they cover the '
                  'load-consistency sentence of the property only at those models')
  for k, (x_, bad) in enumerate(mism):
    ck.add(Ob('concrete-load-consistency/%d: %s' % (k, '; '.join(bad)[:120]), [], z3.BoolVal(False), timeout=5, meta={'tag': 'load', 'xml': x_, 'bad': bad}))

  def replay(ob):
    if ob.meta.get('tag') == 'load':
      return True, {'xml': ob.meta['xml'], 'mismatches': ob.meta['bad']}
    if ob.meta.get('structural'):
      return True, {'note': '%s.pipeline.init did not call mjcf.validate_model(sys.mj_model)' % ob.meta['tag']}
    # rebuild the stand-in model concretely from the model values and run the real validator on it
    jc, ac, gc, op = ob.meta['cfg']
    m = ob.model or {}
    from fractions import Fraction
    def fv(s):
      s = str(s).rstrip('?')
      return float(Fraction(s)) if '/' in s else float(s)
    mj, U = fake_model(jc[0], jc[1], ac, gc[0], gc[1], op)
    def conc(arr):
      a = np.asarray(arr, dtype=object)
      out = np.zeros(a.shape)
      for idx in np.ndindex(*a.shape):
        out[idx] = fv(m.get(a[idx].e.decl().name(), 0))
      return out
    mj.opt.wind = conc(mj.opt.wind)
    mj.opt.impratio = fv(m.get('impratio', 1))
    for f in ('geom_fluid', 'geom_solmix', 'geom_priority', 'qpos0', 'jnt_pos', 'jnt_range', 'jnt_stiffness', 'geom_size'):
      setattr(mj, f, conc(getattr(mj, f)))
    try:
      mjcf.validate_model(mj)
      accepted = True
    except (NotImplementedError, RuntimeError) as ex:
      accepted = False
    feat = []
    if mj.opt.wind.any(): feat.append('wind')
    if mj.opt.impratio != 1: feat.append('impratio')
    if (mj.geom_fluid != 0).any(): feat.append('ellipsoid fluid')
    for i, t in enumerate(gc[0]):
      if t == 5 and (gc[1][i][0] or gc[1][i][1]) and mj.geom_size[i, 1] > 0.001:
        feat.append('colliding cylinder geom %d contype=%d conaffinity=%d halflength=%g' % (i, gc[1][i][0], gc[1][i][1], mj.geom_size[i, 1]))
    info = {'fields': {f: np.asarray(getattr(mj, f)).tolist() for f in ('jnt_type', 'jnt_bodyid', 'qpos0', 'jnt_pos', 'jnt_stiffness', 'geom_type', 'geom_contype', 'geom_conaffinity', 'geom_size',
                                                                       'geom_solmix', 'geom_priority')},
            'opt': {'integrator': op[0], 'cone': op[1], 'wind': mj.opt.wind.tolist(), 'impratio': mj.opt.impratio}, 'accepted_by_real_validate_model': accepted,
            'unsupported_features_present': feat}
    if ob.name.startswith('accepted'):
      return accepted, info       # the model carries an unsupported feature (solver) and the real validator accepts it
    return (not accepted), info
  for p in ('accepted', 'rejected', 'pipeline-init', 'concrete'):
    ck.replayers[p] = replay
  ck.discharge()
  ck.extra['informational_rejections_without_listed_feature'] = sum(1 for o in ck.obs if o.name.startswith('info/') and o.status == 'sat')
  ck.notes.append('info/rejected=>unsupported obligations are informational only (the property does not forbid additional rejections); they never affect the verdict')
  ck.cross_check(n=2)


if __name__ == '__main__':
  report.main('C14', run)
