"""C06 — contacts and joint limits are inert until reached; contacts only push (partial claim: single steps; long drop histories outside).

Inert contacts: one XML with collidable geoms well above a ground plane vs the same XML with contype=conaffinity=0, loaded by the real mjcf.loads;
  init + step of the spring / positional (core) and generalized (extended) pipelines; q Tier B, velocities on a symbolic line; all outputs equal and
  link rotations unit quaternions in both.
Inert limits: the same model with wide ranges (configuration strictly inside) vs without any range attribute; outputs equal.
Push-only / one-impact restitution: a free sphere penetrating the ground by a SYMBOLIC depth d in [2,20] mm with SYMBOLIC normal speed v <= 0 and
  SYMBOLIC elasticity e in [0, 0.9]: after one step the sphere has not moved or accelerated into the ground, and rebounds with e*|v| up to the
  pipeline's stated margin.
"""
import math
import random
from fractions import Fraction as F

import jax
import jax.numpy as jp
import numpy as np
import z3

from checks.c01 import TS, half_point
from checks.c05 import EXACT_INV, outputs, state_inputs
from gen import models
from lib import report
from sx import core
from sx.core import lift
from sx.fr import Fr
from sx.solve import Ob


def with_geoms(spec, collide, margin=None, floor_z=-3.0):
  """margin: MuJoCo's contact-detection margin on every geom; brax activates a contact at dist < 0, whatever the margin"""
  s2 = {k: v for k, v in spec.items()}
  s2['bodies'] = []
  for b in spec['bodies']:
    b2 = dict(b)
    b2['geoms'] = [dict(g, contype=1 if collide else 0, conaffinity=1 if collide else 0, margin=margin if collide else None) for g in b['geoms']]
    s2['bodies'].append(b2)
  s2['world_geoms'] = [{'type': 'plane', 'size': (5, 5, 1), 'pos': (0, 0, floor_z), 'quat': (1, 0, 0, 0), 'name': 'floor', 'margin': margin if collide else None}]
  return s2


def without_limits(spec):
  s2 = {k: v for k, v in spec.items()}
  s2['bodies'] = []
  for b in spec['bodies']:
    b2 = dict(b)
    b2['joints'] = [dict(j, range=None) for j in b['joints']]
    s2['bodies'].append(b2)
  return s2


def run(ck, a):
  from brax import contact as bcontact
  from brax import kinematics
  from brax.generalized import pipeline as gp
  from brax.io import mjcf
  from brax.positional import pipeline as pp
  from brax.spring import pipeline as sp
  thorough = ck.tier == 'thorough'
  rng = random.Random(900 + ck.seed)
  pipes = [('spring', sp), ('positional', pp), ('generalized', gp)]
  ck.bounds = {'inert contacts / limits': 'free root + 1-2 hinge links, geoms with a 5 m detection margin (contact candidates inside the margin but not touching), q Tier B incl. a concrete root position (strictly inside the ranges; ground 3 cm below the lowest geom for hinge-only models, 3 m for models with a slide), velocities on a symbolic line, one step',
               'push-only / restitution / resting': 'free sphere r=0.1 on a plane at a SYMBOLIC horizontal position in [-10,10]^2 (gravity traces: push-only, resting) or at (6,-8) (no-gravity traces: restitution), depth d in [0.002,0.02], normal speed v in [-3,0], elasticity e in [0,0.9] all symbolic, one step, with and without gravity',
               'pipelines': 'spring, positional (core); generalized (extended where encodable)',
               'outside': 'the 3 s resting-height history and the drop-and-rebound trajectory (thousands of steps); boxes and capsules in push-only; float round-off'}
  ck.assumptions += ['reals for floats', 'one simulation step']
  replay = {}
  side_checks = set()
  words_list = [['h'], ['hh'], ['s']] if not thorough else [['h'], ['hh'], ['s'], ['h', 'h'], ['hs']]
  for words in words_list:
    base = models.tree_model(rng, words, free_root=True, ortho=True, limits_p=1.0, actuators=1, joint_props=True, geoms=True)
    base['custom'] = EXACT_INV
    for b in base['bodies']:
      for j in b['joints']:
        if j['type'] == 'hinge':
          j['range'] = (-1.5, 1.5)
        elif j['type'] == 'slide':
          j['range'] = (0.2, 0.8)          # a slide range that excludes 0; the state below sits at 0.5
    # hinge-only models: the ground is raised to 3 cm below the lowest geom of the (concrete, Tier B) configuration -- separated, but close enough that an
    # activation test other than "dist < 0" (margins, approach speed) would already respond to the velocities on the symbolic line
    floor_z, qbase = -3.0, None
    mg = 5.0 if words != ['hh'] else None
    if not any('s' in w for w in words):
      ctx_t = core.Ctx(fold=False)
      q_t, _ = state_inputs(with_geoms(base, False), random.Random(5), ctx_t)
      qbase = [0.3, -0.2, 0.5] + [float(c_) for c_ in q_t[3:7]]
      for c_ in q_t[7:]:
        sh_, ch_ = ctx_t.angle_points[str(c_)]
        qbase.append(2.0 * math.atan2(float(sh_), float(ch_)))
      s_t = mjcf.loads(models.to_xml(with_geoms(base, True, margin=mg)))
      c_t = bcontact.get(s_t, kinematics.forward(s_t, jp.array(qbase), jp.zeros(s_t.qd_size()))[0])
      floor_pairs = np.asarray(c_t.link_idx[0]) == -1
      floor_z = -3.0 + float(np.asarray(c_t.dist)[floor_pairs].min()) - 0.03
    variants = {'contacts': (with_geoms(base, True, margin=mg, floor_z=floor_z), with_geoms(base, False)), 'limits': (with_geoms(base, False), without_limits(with_geoms(base, False)))}
    for vname, (specA, specB) in variants.items():
      xa, xb = models.to_xml(specA), models.to_xml(specB)
      sa, sb = mjcf.loads(xa), mjcf.loads(xb)
      ex = models.exact_params(specA)
      keys = sorted(ex)
      for pname, mod in pipes:
        if pname == 'generalized' and (words != ['h'] or not thorough):
          continue
        has_slide = any('s' in w for w in words)
        if has_slide and pname != 'spring':
          continue      # folding the slide guards on the positional terms is too slow for the tiers; the slide-limit case is spring-specific
        ctx = core.Ctx(fold=has_slide)
        ctx.pair_cos_min = F(27, 50)
        ctx.lemma_timeout = 300
        q, qd = state_inputs(specA, random.Random(5), ctx)
        qi_ = 7
        for b_ in specA['bodies']:
          for j_ in b_['joints']:
            if j_['type'] == 'slide':
              ctx.assume += [q[qi_] >= F(3, 10), q[qi_] <= F(7, 10)]      # strictly inside the slide range (0.2, 0.8)
            if j_['type'] != 'free':
              qi_ += 1
        q[0:3] = [F(3, 10), F(-1, 5), F(1, 2)]      # concrete, well separated root position (the ground plane is 3 m below): contact guards fold concretely
        act = core.consts([F(3, 10)] * sa.act_size())
        fo = outputs(mod, pname)
        def fa(q, qd, act, *ps):
          return fo(sa.tree_replace({kx: p for kx, p in zip(keys, ps)}), q, qd, act)
        def fb(q, qd, act, *ps):
          return fo(sb.tree_replace({kx: p for kx, p in zip(keys, ps)}), q, qd, act)
        pars = [core.consts(ex[kx]) for kx in keys]
        try:
          oa, cj = core.run(ctx, fa, core.obj_array(q), core.obj_array(qd), act, *pars)
          ob_, _ = core.run(ctx, fb, core.obj_array(q), core.obj_array(qd), act, *pars)
        except (core.SXUnsupported, ZeroDivisionError, ValueError, AssertionError) as e_:
          ck.notes.append('inert %s %s %s not encodable: %r' % (vname, pname, words, e_))
          if pname != 'generalized':
            ck.harness_error('inert %s %s %s: %r' % (vname, pname, words, e_))
          continue
        ck.traced('%s.pipeline.init+step (inert %s)' % (pname, vname), cj)
        ck.log('traced inert %s %s %s' % (vname, pname, words))
        from sx.abstract import Abstractor
        ab = Abstractor(keep=30)
        side = []
        tag = '%s/%s/free+%s' % (vname, pname, '.'.join(words))
        replay[tag] = (xa, xb, pname, qbase if vname == 'contacts' else None)
        names = ['x.pos', 'x.rot', 'xd.vel', 'xd.ang', 'q', 'qd']
        ndiff = 0
        for nm, u, v in zip(names, oa, ob_):
          cells = [(x, y) for x, y in zip(np.asarray(u, dtype=object).reshape(-1), np.asarray(v, dtype=object).reshape(-1))]
          eqs = [core.s_eq(x, y) for x, y in cells]
          eqs = [e for e in eqs if not (isinstance(e, bool) and e)]      # identical terms on both sides: nothing to prove
          ndiff += len(eqs)
          if any(isinstance(e, bool) for e in eqs):
            goal = z3.BoolVal(False)
          else:
            goal = z3.And([ab.formula(e) for e in eqs]) if eqs else True
          ck.add(Ob('inert-%s/%s/%s' % (vname, tag, nm), side, goal, timeout=120 if pname == 'spring' else 25, core=(pname == 'spring'), meta={'tag': tag, 'finding_key': 'inert-%s/%s' % (vname, pname)}))
          if pname != 'spring' and eqs:
            side_checks.add(tag)
        ck.log('inert %s: %d output cells differ syntactically' % (tag, ndiff))
    if words == ['h']:
      ck.samples.append({'model_with_contacts': models.to_xml(variants['contacts'][0])[:1500]})

  # ---------------- generalized pipeline, unit level: the limit rows of the constraint solver vanish for EVERY q strictly inside the ranges
  # (constraint.jac_limit is the only place the generalized pipeline reads the ranges; with zero rows the solve is the unconstrained one)
  from brax.generalized import constraint as gconstraint
  rng_u = random.Random(961)
  unit_models = [('two free trees (f,1,1,f,1)', models.merge_specs([models.tree_model(rng_u, ['h', 'h'], free_root=True, ortho=True, limits_p=1.0, joint_props=True),
                                                                     models.tree_model(rng_u, ['s'], free_root=True, ortho=True, limits_p=1.0, joint_props=True)])),
                 ('world-attached stack + free tree (2,f,1)', models.merge_specs([models.tree_model(rng_u, [], free_root=False, root_word='hs', ortho=True, limits_p=1.0, joint_props=True),
                                                                                  models.tree_model(rng_u, ['h'], free_root=True, ortho=True, limits_p=1.0, joint_props=True)]))]
  for uname, uspec in unit_models:
    uspec['custom'] = EXACT_INV
    for b_ in uspec['bodies']:
      for j_ in b_['joints']:
        if j_['type'] != 'free' and j_.get('range') is None:
          j_['range'] = (-0.7, 0.9)
    uxml = models.to_xml(uspec)
    usys = mjcf.loads(uxml)
    import types      # jac_limit reads only state.q and state.qd: a bare namespace stands in for the generalized State (an eager gp.init costs ~30 s per model)
    qs, qds = core.reals('uq', (usys.q_size(),)), core.reals('uqd', (usys.qd_size(),))
    pre = []
    qi_ = 0
    for b_ in uspec['bodies']:
      for j_ in b_['joints']:
        if j_['type'] == 'free':
          qi_ += 7
        else:
          pre += [qs[qi_] > F(repr(float(j_['range'][0]))), qs[qi_] < F(repr(float(j_['range'][1])))]
          qi_ += 1
    ctxu = core.Ctx(fold=False)
    try:
      (jac, diag, aref), cju = core.run(ctxu, lambda q_, qd_: gconstraint.jac_limit(usys, types.SimpleNamespace(q=q_, qd=qd_)), qs, qds)
    except (core.SXUnsupported, ZeroDivisionError, ValueError, AssertionError) as e_:
      ck.harness_error('generalized limit rows %s: %r' % (uname, e_))
      continue
    ck.traced('generalized.constraint.jac_limit', cju)
    fru = Fr.for_ctx(ctxu)
    sideu = [fru.formula(s_, _top=False) for s_ in ctxu.side] + pre
    cells = list(np.asarray(jac, dtype=object).reshape(-1)) + list(np.asarray(diag, dtype=object).reshape(-1)) + list(np.asarray(aref, dtype=object).reshape(-1))
    nzc = [c_ for c_ in cells if not (core.isc(c_) and c_ == 0)]
    utag = 'limit-rows/' + uname
    replay[utag] = (uxml, models.to_xml(without_limits(uspec)), 'generalized', None)
    ck.add(Ob('inert-limits-unit/generalized/%s: limit rows (jac, diag, aref) vanish strictly inside the ranges' % uname, sideu,
              z3.And([fru.formula(lift(c_) == 0) for c_ in nzc]) if nzc else True, timeout=60, meta={'tag': utag, 'unit': True}))
    if uname.startswith('two'):
      ck.add(Ob('twin/reach/' + utag, sideu, None, expect='sat', timeout=30))
      ck.add(Ob('twin/limit-active-outside-range/' + utag, [fru.formula(s_, _top=False) for s_ in ctxu.side] + [z3.Not(z3.And([fru.formula(lift(c_) == 0) for c_ in nzc]))], None, expect='sat', timeout=30))

  # ---------------- push-only and one-impact restitution: free sphere on the ground
  r_ = F(1, 10)
  spec = {'bodies': [{'name': 'ball', 'parent': -1, 'pos': (0, 0, 0.1), 'quat': (1, 0, 0, 0), 'joints': [{'name': 'jf', 'type': 'free'}],
                      'geoms': [{'type': 'sphere', 'size': (0.1,), 'pos': (0, 0, 0), 'quat': (1, 0, 0, 0), 'contype': 1, 'conaffinity': 1, 'name': 'g'}], 'mass': 1.5,
                      'inertia': (0.2, 0.2, 0.2), 'ipos': (0, 0, 0)}], 'actuators': [],
          'world_geoms': [{'type': 'plane', 'size': (5, 5, 1), 'pos': (0, 0, 0), 'quat': (1, 0, 0, 0), 'name': 'floor'}], 'custom': EXACT_INV}
  xml = models.to_xml(spec)
  sys0 = mjcf.loads(xml)
  d, v, e = z3.Real('d'), z3.Real('v'), z3.Real('e')
  dom = [d >= F(2, 1000), d <= F(20, 1000), v <= 0, v >= -3, e >= 0, e <= F(9, 10)]
  px, py = z3.Real('px'), z3.Real('py')       # the sphere touches the ground ANYWHERE within 10 m of the world origin (lever arms about the origin must not enter)
  dom += [px >= -10, px <= 10, py >= -10, py <= 10]
  for pname, mod in pipes:
    if pname == 'generalized' and not thorough:
      continue
    for grav in (False, True):
      ctx = core.Ctx(fold=True, assume=dom)
      ctx.lemma_timeout = 1000
      q = core.obj_array([px if grav else F(6), py if grav else F(-8), r_ - d, 1, 0, 0, 0])      # restitution queries (no gravity) keep a concrete off-origin position: they are the slowest
      qd = core.obj_array([0, 0, v, 0, 0, 0])
      ea = np.empty((sys0.elasticity.shape[0],), dtype=object)
      for i in range(ea.shape[0]):
        ea[i] = e
      gvec = core.consts([0, 0, F(-981, 100) if grav else 0])
      def f(q, qd, el, gvec):
        s = sys0.replace(elasticity=el, gravity=gvec)
        st = mod.init(s, q, qd)
        o = mod.step(s, st, jp.zeros(0))
        return o.x.pos[0, 2], o.xd.vel[0, 2], st.x.pos[0, 2]
      try:
        (z2, vz2, z1), cj = core.run(ctx, f, q, qd, ea, gvec)
        z2, vz2, z1 = z2[()], vz2[()], z1[()]
      except (core.SXUnsupported, ZeroDivisionError, ValueError, AssertionError) as e_:
        ck.notes.append('push-only %s not encodable: %r' % (pname, e_))
        continue
      ck.traced('%s.pipeline.init+step (sphere on plane)' % pname, cj)
      ck.log('traced sphere %s grav=%s folds=%s' % (pname, grav, ctx.fold_stats))
      fr = Fr.for_ctx(ctx)
      side = [fr.formula(s_, _top=False) for s_ in ctx.side] + dom
      dt = F(repr(float(sys0.opt.timestep)))
      tag = 'sphere/%s/%s' % (pname, 'gravity' if grav else 'no-gravity')
      replay[tag] = (xml, None, pname, None)
      is_core = pname != 'generalized'
      meta = {'tag': tag, 'grav': grav}
      # at rest (v = 0): never pulled in
      rest = [v == 0]
      gdt = F(-981, 100) * dt if grav else 0
      ck.add(Ob('push-only/%s: a resting penetrating sphere is not pulled in' % tag, side + rest,
                z3.And(fr.formula(lift(vz2) >= gdt - F(1, 10**9)), fr.formula(lift(z2) - lift(z1) >= gdt * dt - F(1, 10**9))), timeout=120, core=is_core, meta=meta))
      if grav and pname in ('spring', 'positional'):
        # one-step necessary condition of the resting clause (rest within 2 mm of the analytic height): at rest, 2-20 mm inside the ground, under gravity,
        # the contact wins over gravity -- the sphere ends the step higher than it started
        ck.add(Ob('resting/%s: a resting sphere 2-20 mm inside the ground moves outward under gravity' % tag, side + rest, fr.formula(lift(z2) - lift(z1) > 0), timeout=120, core=is_core, meta=meta))
      if not grav and pname in ('spring', 'positional'):
        erp = F(repr(float(sys0.baumgarte_erp)))
        if pname == 'spring':
          lo_, hi_ = -e * v - F(1, 10**6), -e * v + erp * d / dt + F(1, 10**6)
          ck.add(Ob('restitution/%s: post-impact normal speed in [e|v|, e|v| + erp*d/dt]' % tag, side + [v <= -F(1, 10)],
                    z3.And(fr.formula(lift(vz2) >= lo_), fr.formula(lift(vz2) <= hi_)), timeout=300, core=True, meta=meta))
        else:
          # positional: e at exact rational sample values (keeps each query to the two variables d, v), margin 1e-3 (1 + |v|)
          for ev in (F(0), F(1, 2), F(9, 10)):
            lo_, hi_ = -ev * v - F(1, 1000) * (1 - v), -ev * v + F(1, 1000) * (1 - v)
            # lower and upper bound as separate queries (nlsat run times on the conjunction vary by an order of magnitude)
            ck.add(Ob('restitution/%s/e=%s: post-impact normal speed >= e*|v| - 1e-3(1+|v|)' % (tag, ev), side + [v <= -F(1, 10), e == ev], fr.formula(lift(vz2) >= lo_), timeout=300, core=True, meta=meta))
            ck.add(Ob('restitution/%s/e=%s: post-impact normal speed <= e*|v| + 1e-3(1+|v|)' % (tag, ev), side + [v <= -F(1, 10), e == ev], fr.formula(lift(vz2) <= hi_), timeout=300, core=True, meta=meta))
      if not grav:
        ck.add(Ob('twin/reach/' + tag, side, None, expect='sat', timeout=60, core=is_core))
        ck.add(Ob('twin/pull-in-possible/' + tag, side + [fr.formula(lift(vz2) <= F(1, 100))], None, expect='sat', timeout=60, core=is_core))

  def fv(x):
    x = str(x).rstrip('?')
    return float(F(x)) if '/' in x else float(x)

  def rep(ob):
    tag = ob.meta['tag']
    xa, xb, pname, qb_ = replay[tag]
    mod = dict(pipes)[pname]
    r = np.random.RandomState(2)
    if xb is None:
      s = mjcf.loads(xa)
      for dd in (0.002, 0.005, 0.01, 0.02):
        for vv in (0.0, -0.1, -0.5, -1.0, -3.0):
          for ee in (0.0, 0.3, 0.6, 0.9):
            s2 = s.replace(elasticity=jp.full_like(s.elasticity, ee), gravity=jp.array([0, 0, -9.81 if ob.meta.get('grav') else 0.0]))
            mx_, my_ = (fv(ob.model.get('px', 6.0)), fv(ob.model.get('py', -8.0))) if ob.model else (6.0, -8.0)
            st = mod.init(s2, jp.array([mx_, my_, 0.1 - dd, 1, 0, 0, 0.]), jp.array([0, 0, vv, 0, 0, 0.]))
            o = mod.step(s2, st, jp.zeros(0))
            vz, dz = float(o.xd.vel[0, 2]), float(o.x.pos[0, 2] - st.x.pos[0, 2])
            dt = float(s.opt.timestep)
            gdt = -9.81 * dt if ob.meta.get('grav') else 0.0
            info = {'pipeline': pname, 'xml': xa, 'depth': dd, 'v': vv, 'elasticity': ee, 'vz_after': vz, 'dz': dz}
            info['xy'] = [mx_, my_]
            if ob.name.startswith('push-only') and vv == 0.0 and (vz < gdt - 1e-7 or dz < gdt * dt - 1e-9):
              return True, info
            if ob.name.startswith('resting') and vv == 0.0 and dz <= 0:
              return True, info
            if ob.name.startswith('restitution') and vv <= -0.1:
              erp = float(s.baumgarte_erp)
              lo_, hi_ = (-ee * vv - 1e-5, -ee * vv + erp * dd / dt + 1e-5) if pname == 'spring' else (-ee * vv - 1e-3 * (1 - vv) - 1e-6, -ee * vv + 1e-3 * (1 - vv) + 1e-6)
              if not (lo_ <= vz <= hi_):
                info['expected_interval'] = [lo_, hi_]
                return True, info
      return False, {'why': 'no violating (depth, v, e) found on the grid'}
    sa, sb = mjcf.loads(xa), mjcf.loads(xb)
    if ob.meta.get('unit'):
      lo_, hi_ = np.asarray(sa.dof.limit[0]), np.asarray(sa.dof.limit[1])
      for trial in range(6):
        q = np.array(sa.init_q)
        qo, do = 0, 0
        for t_ in sa.link_types:
          if t_ == 'f':
            q[qo:qo + 3] += r.uniform(-0.5, 0.5, 3)
            w_ = r.randn(4)
            q[qo + 3:qo + 7] = w_ / np.linalg.norm(w_)
            qo, do = qo + 7, do + 6
          else:
            for k_ in range(int(t_)):
              q[qo + k_] = r.uniform(lo_[do + k_] + 0.05, hi_[do + k_] - 0.05)
            qo, do = qo + int(t_), do + int(t_)
        qd = r.uniform(-0.2, 0.2, sa.qd_size())
        oa = mod.step(sa, mod.init(sa, jp.array(q), jp.array(qd)), jp.zeros(sa.act_size()))
        ob2 = mod.step(sb, mod.init(sb, jp.array(q), jp.array(qd)), jp.zeros(sb.act_size()))
        inside = bool(np.all(np.asarray(oa.q)[np.asarray(sa.q_idx('123'))] > lo_[np.asarray(sa.qd_idx('123'))]) and np.all(np.asarray(oa.q)[np.asarray(sa.q_idx('123'))] < hi_[np.asarray(sa.qd_idx('123'))]))
        err = max(float(jp.abs(oa.q - ob2.q).max()), float(jp.abs(oa.qd - ob2.qd).max()))
        if inside and err > 1e-9:
          return True, {'pipeline': pname, 'xml_with_limits': xa, 'xml_without_limits': xb, 'q': q.tolist(), 'qd': qd.tolist(), 'max_output_difference': err}
      return False, {'why': 'no difference found on sampled states strictly inside the ranges'}
    for trial in range(6):
      q = np.array(sa.init_q)
      q[3:7] = r.randn(4)
      q[3:7] /= np.linalg.norm(q[3:7])
      q[7:] = r.uniform(-0.6, 0.6, len(q) - 7)
      qd = r.uniform(-1, 1, sa.qd_size())
      if qb_ is not None and trial < 4:
        # the encoded configuration itself (3 cm above the ground), approaching the ground at up to 3 m/s
        q = np.array(qb_)
        qd[2] = -r.uniform(0.5, 3.0) if trial < 3 else qd[2]
      act = jp.array(r.uniform(-1, 1, sa.act_size()))
      sta = mod.init(sa, jp.array(q), jp.array(qd))
      oa = mod.step(sa, sta, act)
      ob2 = mod.step(sb, mod.init(sb, jp.array(q), jp.array(qd)), act)
      if ob.name.startswith('inert-contacts'):
        # precondition of the clause: nothing touches, before and after the step
        c0_, c1_ = bcontact.get(sa, sta.x), bcontact.get(sa, oa.x)
        if c0_ is not None and (float(c0_.dist.min()) <= 0 or float(c1_.dist.min()) <= 0):
          continue
      err = max(float(jp.abs(oa.x.pos - ob2.x.pos).max()), float(jp.abs(oa.x.rot - ob2.x.rot).max()), float(jp.abs(oa.xd.vel - ob2.xd.vel).max()), float(jp.abs(oa.qd - ob2.qd).max()))
      nrm = max(float(jp.abs(jp.sum(oa.x.rot ** 2, axis=1) - 1).max()), float(jp.abs(jp.sum(ob2.x.rot ** 2, axis=1) - 1).max()))
      if (ob.name.startswith('inert') and err > 1e-9) or (ob.name.startswith('unit') and nrm > 1e-9):
        return True, {'pipeline': pname, 'xml_A': xa, 'xml_B': xb, 'q': q.tolist(), 'qd': qd.tolist(), 'act': np.asarray(act).tolist(), 'max_output_difference': err, 'max_norm_defect': nrm}
    return False, {'why': 'no difference found on sampled states'}
  for p in ('inert', 'unit', 'push', 'restitution', 'resting'):
    ck.replayers[p] = rep
  ck.discharge()
  # concrete differential side-check (NOT solver-decided, reported separately): where the solver could not decide an extended inert obligation
  # (positional / generalized: the two runs are equal only after non-trivial algebra), execute both models on sampled states and compare exactly
  nside = 0
  for tag in sorted(side_checks):
    und = [o for o in ck.obs if o.meta.get('tag') == tag and o.name.startswith('inert') and o.status not in ('unsat',)]
    if not und:
      continue
    class _O:  # minimal obligation stand-in for the replayer
      name = 'inert'
      meta = {'tag': tag}
      model = None
    badc, info = rep(_O)
    nside += 1
    if badc:
      ob = Ob('inert-concrete-side-check/%s' % tag, [], z3.BoolVal(False), timeout=5, meta={'tag': tag})
      ob.status, ob.smt2, ob.trivial = 'sat', '', False
      ck.add(ob)
  ck.extra['concrete_side_checks'] = nside
  ck.notes.append('concrete_side_checks: differential executions of the real pipelines on sampled states for extended inert obligations the solver left undecided')
  ck.cross_check(n=1, timeout=10)


if __name__ == '__main__':
  report.main('C06', run)
