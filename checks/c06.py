"""C06 — contacts and joint limits are inert until reached; contacts only push (partial claim: single steps; long drop histories outside).

Inert contacts: one XML with collidable geoms well above a ground plane vs the same XML with contype=conaffinity=0, loaded by the real mjcf.loads;
  init + step of the spring / positional (core) and generalized (extended) pipelines; q Tier B, velocities on a symbolic line; all outputs equal and
  link rotations unit quaternions in both.
Inert limits: the same model with wide ranges (configuration strictly inside) vs without any range attribute; outputs equal.
Push-only / one-impact restitution: a free sphere penetrating the ground by a SYMBOLIC depth d in [2,20] mm with SYMBOLIC normal speed v <= 0 and
  SYMBOLIC elasticity e in [0, 0.9]: after one step the sphere has not moved or accelerated into the ground, and rebounds with e*|v| up to the
  pipeline's stated margin.
"""
import random
from fractions import Fraction as F

import jax
import jax.numpy as jp
import numpy as np
import z3

from checks.c01 import TS, half_point
from checks.c05 import EXACT_INV, outputs, state_inputs
from gen import models
from lib import report
from sx import core
from sx.core import lift
from sx.fr import Fr
from sx.solve import Ob


def with_geoms(spec, collide):
  s2 = {k: v for k, v in spec.items()}
  s2['bodies'] = []
  for b in spec['bodies']:
    b2 = dict(b)
    b2['geoms'] = [dict(g, contype=1 if collide else 0, conaffinity=1 if collide else 0) for g in b['geoms']]
    s2['bodies'].append(b2)
  s2['world_geoms'] = [{'type': 'plane', 'size': (5, 5, 1), 'pos': (0, 0, -3), 'quat': (1, 0, 0, 0), 'name': 'floor'}]
  return s2


def without_limits(spec):
  s2 = {k: v for k, v in spec.items()}
  s2['bodies'] = []
  for b in spec['bodies']:
    b2 = dict(b)
    b2['joints'] = [dict(j, range=None) for j in b['joints']]
    s2['bodies'].append(b2)
  return s2


def run(ck, a):
  from brax.generalized import pipeline as gp
  from brax.io import mjcf
  from brax.positional import pipeline as pp
  from brax.spring import pipeline as sp
  thorough = ck.tier == 'thorough'
  rng = random.Random(900 + ck.seed)
  pipes = [('spring', sp), ('positional', pp), ('generalized', gp)]
  ck.bounds = {'inert contacts / limits': 'free root + 1-2 hinge links, q Tier B incl. a concrete root position (strictly inside the ranges, 3 m above the ground), velocities on a symbolic line, one step',
               'push-only / restitution': 'free sphere r=0.1 on a plane, depth d in [0.002,0.02], normal speed v in [-3,0], elasticity e in [0,0.9] all symbolic, one step, with and without gravity',
               'pipelines': 'spring, positional (core); generalized (extended where encodable)',
               'outside': 'the 3 s resting-height history and the drop-and-rebound trajectory (thousands of steps); boxes and capsules in push-only; float round-off'}
  ck.assumptions += ['reals for floats', 'one simulation step']
  replay = {}
  side_checks = set()
  words_list = [['h'], ['hh'], ['s']] if not thorough else [['h'], ['hh'], ['s'], ['h', 'h'], ['hs']]
  for words in words_list:
    base = models.tree_model(rng, words, free_root=True, ortho=True, limits_p=1.0, actuators=1, joint_props=True, geoms=True)
    base['custom'] = EXACT_INV
    for b in base['bodies']:
      for j in b['joints']:
        if j['type'] == 'hinge':
          j['range'] = (-1.5, 1.5)
        elif j['type'] == 'slide':
          j['range'] = (0.2, 0.8)          # a slide range that excludes 0; the state below sits at 0.5
    variants = {'contacts': (with_geoms(base, True), with_geoms(base, False)), 'limits': (with_geoms(base, False), without_limits(with_geoms(base, False)))}
    for vname, (specA, specB) in variants.items():
      xa, xb = models.to_xml(specA), models.to_xml(specB)
      sa, sb = mjcf.loads(xa), mjcf.loads(xb)
      ex = models.exact_params(specA)
      keys = sorted(ex)
      for pname, mod in pipes:
        if pname == 'generalized' and (words != ['h'] or not thorough):
          continue
        has_slide = any('s' in w for w in words)
        if has_slide and pname != 'spring':
          continue      # folding the slide guards on the positional terms is too slow for the tiers; the slide-limit case is spring-specific
        ctx = core.Ctx(fold=has_slide)
        ctx.pair_cos_min = F(27, 50)
        ctx.lemma_timeout = 300
        q, qd = state_inputs(specA, random.Random(5), ctx)
        qi_ = 7
        for b_ in specA['bodies']:
          for j_ in b_['joints']:
            if j_['type'] == 'slide':
              ctx.assume += [q[qi_] >= F(3, 10), q[qi_] <= F(7, 10)]      # strictly inside the slide range (0.2, 0.8)
            if j_['type'] != 'free':
              qi_ += 1
        q[0:3] = [F(3, 10), F(-1, 5), F(1, 2)]      # concrete, well separated root position (the ground plane is 3 m below): contact guards fold concretely
        act = core.consts([F(3, 10)] * sa.act_size())
        fo = outputs(mod, pname)
        def fa(q, qd, act, *ps):
          return fo(sa.tree_replace({kx: p for kx, p in zip(keys, ps)}), q, qd, act)
        def fb(q, qd, act, *ps):
          return fo(sb.tree_replace({kx: p for kx, p in zip(keys, ps)}), q, qd, act)
        pars = [core.consts(ex[kx]) for kx in keys]
        try:
          oa, cj = core.run(ctx, fa, core.obj_array(q), core.obj_array(qd), act, *pars)
          ob_, _ = core.run(ctx, fb, core.obj_array(q), core.obj_array(qd), act, *pars)
        except (core.SXUnsupported, ZeroDivisionError, ValueError, AssertionError) as e_:
          ck.notes.append('inert %s %s %s not encodable: %r' % (vname, pname, words, e_))
          if pname != 'generalized':
            ck.harness_error('inert %s %s %s: %r' % (vname, pname, words, e_))
          continue
        ck.traced('%s.pipeline.init+step (inert %s)' % (pname, vname), cj)
        ck.log('traced inert %s %s %s' % (vname, pname, words))
        from sx.abstract import Abstractor
        ab = Abstractor(keep=30)
        side = []
        tag = '%s/%s/free+%s' % (vname, pname, '.'.join(words))
        replay[tag] = (xa, xb, pname)
        names = ['x.pos', 'x.rot', 'xd.vel', 'xd.ang', 'q', 'qd']
        ndiff = 0
        for nm, u, v in zip(names, oa, ob_):
          cells = [(x, y) for x, y in zip(np.asarray(u, dtype=object).reshape(-1), np.asarray(v, dtype=object).reshape(-1))]
          eqs = [core.s_eq(x, y) for x, y in cells]
          eqs = [e for e in eqs if not (isinstance(e, bool) and e)]      # identical terms on both sides: nothing to prove
          ndiff += len(eqs)
          if any(isinstance(e, bool) for e in eqs):
            goal = z3.BoolVal(False)
          else:
            goal = z3.And([ab.formula(e) for e in eqs]) if eqs else True
          ck.add(Ob('inert-%s/%s/%s' % (vname, tag, nm), side, goal, timeout=120 if pname == 'spring' else 25, core=(pname == 'spring'), meta={'tag': tag, 'finding_key': 'inert-%s/%s' % (vname, pname)}))
          if pname != 'spring' and eqs:
            side_checks.add(tag)
        ck.log('inert %s: %d output cells differ syntactically' % (tag, ndiff))
    if words == ['h']:
      ck.samples.append({'model_with_contacts': models.to_xml(variants['contacts'][0])[:1500]})

  # ---------------- push-only and one-impact restitution: free sphere on the ground
  r_ = F(1, 10)
  spec = {'bodies': [{'name': 'ball', 'parent': -1, 'pos': (0, 0, 0.1), 'quat': (1, 0, 0, 0), 'joints': [{'name': 'jf', 'type': 'free'}],
                      'geoms': [{'type': 'sphere', 'size': (0.1,), 'pos': (0, 0, 0), 'quat': (1, 0, 0, 0), 'contype': 1, 'conaffinity': 1, 'name': 'g'}], 'mass': 1.5,
                      'inertia': (0.2, 0.2, 0.2), 'ipos': (0, 0, 0)}], 'actuators': [],
          'world_geoms': [{'type': 'plane', 'size': (5, 5, 1), 'pos': (0, 0, 0), 'quat': (1, 0, 0, 0), 'name': 'floor'}], 'custom': EXACT_INV}
  xml = models.to_xml(spec)
  sys0 = mjcf.loads(xml)
  d, v, e = z3.Real('d'), z3.Real('v'), z3.Real('e')
  dom = [d >= F(2, 1000), d <= F(20, 1000), v <= 0, v >= -3, e >= 0, e <= F(9, 10)]
  for pname, mod in pipes:
    if pname == 'generalized' and not thorough:
      continue
    for grav in (False, True):
      ctx = core.Ctx(fold=True, assume=dom)
      ctx.lemma_timeout = 1000
      q = core.obj_array([0, 0, r_ - d, 1, 0, 0, 0])
      qd = core.obj_array([0, 0, v, 0, 0, 0])
      ea = np.empty((sys0.elasticity.shape[0],), dtype=object)
      for i in range(ea.shape[0]):
        ea[i] = e
      gvec = core.consts([0, 0, F(-981, 100) if grav else 0])
      def f(q, qd, el, gvec):
        s = sys0.replace(elasticity=el, gravity=gvec)
        st = mod.init(s, q, qd)
        o = mod.step(s, st, jp.zeros(0))
        return o.x.pos[0, 2], o.xd.vel[0, 2], st.x.pos[0, 2]
      try:
        (z2, vz2, z1), cj = core.run(ctx, f, q, qd, ea, gvec)
        z2, vz2, z1 = z2[()], vz2[()], z1[()]
      except (core.SXUnsupported, ZeroDivisionError, ValueError, AssertionError) as e_:
        ck.notes.append('push-only %s not encodable: %r' % (pname, e_))
        continue
      ck.traced('%s.pipeline.init+step (sphere on plane)' % pname, cj)
      ck.log('traced sphere %s grav=%s folds=%s' % (pname, grav, ctx.fold_stats))
      fr = Fr.for_ctx(ctx)
      side = [fr.formula(s_, _top=False) for s_ in ctx.side] + dom
      dt = F(repr(float(sys0.opt.timestep)))
      tag = 'sphere/%s/%s' % (pname, 'gravity' if grav else 'no-gravity')
      replay[tag] = (xml, None, pname)
      is_core = pname != 'generalized'
      meta = {'tag': tag, 'grav': grav}
      # at rest (v = 0): never pulled in
      rest = [v == 0]
      gdt = F(-981, 100) * dt if grav else 0
      ck.add(Ob('push-only/%s: a resting penetrating sphere is not pulled in' % tag, side + rest,
                z3.And(fr.formula(lift(vz2) >= gdt - F(1, 10**9)), fr.formula(lift(z2) - lift(z1) >= gdt * dt - F(1, 10**9))), timeout=120, core=is_core, meta=meta))
      if not grav and pname in ('spring', 'positional'):
        erp = F(repr(float(sys0.baumgarte_erp)))
        if pname == 'spring':
          lo_, hi_ = -e * v - F(1, 10**6), -e * v + erp * d / dt + F(1, 10**6)
          ck.add(Ob('restitution/%s: post-impact normal speed in [e|v|, e|v| + erp*d/dt]' % tag, side + [v <= -F(1, 10)],
                    z3.And(fr.formula(lift(vz2) >= lo_), fr.formula(lift(vz2) <= hi_)), timeout=300, core=True, meta=meta))
        else:
          # positional: e at exact rational sample values (keeps each query to the two variables d, v), margin 1e-3 (1 + |v|)
          for ev in (F(0), F(1, 2), F(9, 10)):
            lo_, hi_ = -ev * v - F(1, 1000) * (1 - v), -ev * v + F(1, 1000) * (1 - v)
            ck.add(Ob('restitution/%s/e=%s: post-impact normal speed == e*|v| within 1e-3(1+|v|)' % (tag, ev), side + [v <= -F(1, 10), e == ev],
                      z3.And(fr.formula(lift(vz2) >= lo_), fr.formula(lift(vz2) <= hi_)), timeout=300, core=True, meta=meta))
      if not grav:
        ck.add(Ob('twin/reach/' + tag, side, None, expect='sat', timeout=60, core=is_core))
        ck.add(Ob('twin/pull-in-possible/' + tag, side + [fr.formula(lift(vz2) <= F(1, 100))], None, expect='sat', timeout=60, core=is_core))

  def rep(ob):
    tag = ob.meta['tag']
    xa, xb, pname = replay[tag]
    mod = dict(pipes)[pname]
    r = np.random.RandomState(2)
    if xb is None:
      s = mjcf.loads(xa)
      for dd in (0.002, 0.005, 0.01, 0.02):
        for vv in (0.0, -0.1, -0.5, -1.0, -3.0):
          for ee in (0.0, 0.3, 0.6, 0.9):
            s2 = s.replace(elasticity=jp.full_like(s.elasticity, ee), gravity=jp.array([0, 0, -9.81 if ob.meta.get('grav') else 0.0]))
            st = mod.init(s2, jp.array([0, 0, 0.1 - dd, 1, 0, 0, 0.]), jp.array([0, 0, vv, 0, 0, 0.]))
            o = mod.step(s2, st, jp.zeros(0))
            vz, dz = float(o.xd.vel[0, 2]), float(o.x.pos[0, 2] - st.x.pos[0, 2])
            dt = float(s.opt.timestep)
            gdt = -9.81 * dt if ob.meta.get('grav') else 0.0
            info = {'pipeline': pname, 'xml': xa, 'depth': dd, 'v': vv, 'elasticity': ee, 'vz_after': vz, 'dz': dz}
            if ob.name.startswith('push-only') and vv == 0.0 and (vz < gdt - 1e-7 or dz < gdt * dt - 1e-9):
              return True, info
            if ob.name.startswith('restitution') and vv <= -0.1:
              erp = float(s.baumgarte_erp)
              lo_, hi_ = (-ee * vv - 1e-5, -ee * vv + erp * dd / dt + 1e-5) if pname == 'spring' else (-ee * vv - 1e-3 * (1 - vv) - 1e-6, -ee * vv + 1e-3 * (1 - vv) + 1e-6)
              if not (lo_ <= vz <= hi_):
                info['expected_interval'] = [lo_, hi_]
                return True, info
      return False, {'why': 'no violating (depth, v, e) found on the grid'}
    sa, sb = mjcf.loads(xa), mjcf.loads(xb)
    for trial in range(6):
      q = np.array(sa.init_q)
      q[3:7] = r.randn(4)
      q[3:7] /= np.linalg.norm(q[3:7])
      q[7:] = r.uniform(-0.6, 0.6, len(q) - 7)
      qd = r.uniform(-1, 1, sa.qd_size())
      act = jp.array(r.uniform(-1, 1, sa.act_size()))
      oa = mod.step(sa, mod.init(sa, jp.array(q), jp.array(qd)), act)
      ob2 = mod.step(sb, mod.init(sb, jp.array(q), jp.array(qd)), act)
      err = max(float(jp.abs(oa.x.pos - ob2.x.pos).max()), float(jp.abs(oa.x.rot - ob2.x.rot).max()), float(jp.abs(oa.xd.vel - ob2.xd.vel).max()), float(jp.abs(oa.qd - ob2.qd).max()))
      nrm = max(float(jp.abs(jp.sum(oa.x.rot ** 2, axis=1) - 1).max()), float(jp.abs(jp.sum(ob2.x.rot ** 2, axis=1) - 1).max()))
      if (ob.name.startswith('inert') and err > 1e-9) or (ob.name.startswith('unit') and nrm > 1e-9):
        return True, {'pipeline': pname, 'xml_A': xa, 'xml_B': xb, 'q': q.tolist(), 'qd': qd.tolist(), 'act': np.asarray(act).tolist(), 'max_output_difference': err, 'max_norm_defect': nrm}
    return False, {'why': 'no difference found on sampled states'}
  for p in ('inert', 'unit', 'push', 'restitution'):
    ck.replayers[p] = rep
  ck.discharge()
  # concrete differential side-check (NOT solver-decided, reported separately): where the solver could not decide an extended inert obligation
  # (positional / generalized: the two runs are equal only after non-trivial algebra), execute both models on sampled states and compare exactly
  nside = 0
  for tag in sorted(side_checks):
    und = [o for o in ck.obs if o.meta.get('tag') == tag and o.name.startswith('inert') and o.status not in ('unsat',)]
    if not und:
      continue
    class _O:  # minimal obligation stand-in for the replayer
      name = 'inert'
      meta = {'tag': tag}
      model = None
    badc, info = rep(_O)
    nside += 1
    if badc:
      ob = Ob('inert-concrete-side-check/%s' % tag, [], z3.BoolVal(False), timeout=5, meta={'tag': tag})
      ob.status, ob.smt2, ob.trivial = 'sat', '', False
      ck.add(ob)
  ck.extra['concrete_side_checks'] = nside
  ck.notes.append('concrete_side_checks: differential executions of the real pipelines on sampled states for extended inert obligations the solver left undecided')
  ck.cross_check(n=1, timeout=10)


if __name__ == '__main__':
  report.main('C06', run)
