"""C08 — joint coordinates and world coordinates round-trip.

Encoded: kinematics.forward -> world_to_joint -> inverse (with link_to_joint_frame, axis_angle_ang, axis_slide_vel) on generator models whose
stacked axes are mutually orthogonal.  Hinge angles are SYMBOLIC through the rational parametrisation t = tan(q/4) on the chart |q| <= 1.2;
slide coordinates, root positions and all velocities are symbolic reals; root orientations exact rational unit quaternions.
atan2 / acos applications produced by the Euler-angle extraction are uninterpreted, with the sound IDENTIFICATION axioms
   Y cos a - X sin a = 0  and  X cos a + Y sin a > 0   =>  atan2(Y, X) = a            (a in (-pi, pi))
   d = cos a and sin a >= 0 => acos(d) = a ;  d = cos a and sin a <= 0 => acos(d) = -a
instantiated for the input angles a (whose sin / cos are rational functions of t).  The obligation is then simply q' == q, qd' == qd.
"""
import itertools
import math
import random
from fractions import Fraction as F

import jax
import jax.numpy as jp
import numpy as np
import z3

from gen import models
from lib import report
from sx import core, validate
from sx.core import lift
from sx.fr import Fr
from sx.solve import Ob

TMAX = F(309, 1000)        # tan(0.3) = 0.30934: |q| <= 1.2
KNOWN = 'velocity round trip of prismatic / stacked joints and position round trip of a slide after a hinge (upstream limitation, see C01)'


def build_model(rng, word, free_root, frame_idx, handed=1):
  """free (or world) root + one child link carrying the orthogonal stack `word`"""
  frame = models.ORTHO[frame_idx % len(models.ORTHO)]
  axes = list(frame)
  if handed < 0:
    axes[1], axes[2] = axes[2], axes[1]
  bodies = []
  if free_root:
    bodies.append({'name': 'root', 'parent': -1, 'pos': (0, 0, 1), 'quat': (1, 0, 0, 0), 'joints': [{'name': 'jf', 'type': 'free'}], 'geoms': [], 'mass': 1.0,
                   'inertia': (0.2, 0.2, 0.2), 'ipos': (0, 0, 0)})
  anchor = models.vec(rng, -0.2, 0.2)
  joints = [{'name': 'j%d' % k, 'type': 'hinge' if c == 'h' else 'slide', 'axis': axes[k], 'pos': anchor, 'range': None} for k, c in enumerate(word)]
  bodies.append({'name': 'link', 'parent': 0 if free_root else -1, 'pos': models.vec(rng), 'quat': rng.choice(models.QUATS), 'joints': joints, 'geoms': [], 'mass': 1.0,
                 'inertia': (0.2, 0.2, 0.2), 'ipos': (0, 0, 0)})
  for b in bodies:
    b['geoms'] = [{'type': 'sphere', 'size': (0.1,), 'contype': 0, 'conaffinity': 0}]
  return {'bodies': bodies, 'actuators': []}


def run(ck, a):
  from brax import kinematics
  from brax.io import mjcf
  thorough = ck.tier == 'thorough'
  rng = random.Random(800)        # the core configurations are fixed (seed independent); VERIF_SEED adds extended configurations below
  words1 = ['h', 's', 'hh', 'ss', 'sh']
  words2 = ['hhh', 'sss', 'ssh']
  cfgs = []
  for w in words1:
    for fr_ in (True, False):
      cfgs.append((w, fr_, rng.randrange(8), 1, True))
  cfgs.append(('hh', True, rng.randrange(8), -1, True))
  if ck.seed:
    r2 = random.Random(800 + ck.seed)
    for w in ('h', 'hh', 'sh'):
      cfgs.append((w, r2.random() < 0.5, r2.randrange(8), r2.choice([1, -1]) if w == 'hh' else 1, False))
  # root orientations with w == 0 (half turns): the Tier B pool has none, and sign canonicalisations of the reported quaternion break exactly there
  root_override = {len(cfgs): (0, F(3, 5), F(4, 5), 0), len(cfgs) + 1: (0, 0, 0, 1)}
  cfgs.append(('h', True, 3, 1, True))
  cfgs.append(('s', True, 5, 1, True))
  if thorough:
    for w in words2:
      cfgs.append((w, True, rng.randrange(8), 1, False))
      cfgs.append((w, False, rng.randrange(8), -1, False))
  ck.bounds = {'stacks': words1 + words2, 'chart': '|q_hinge| <= 1.2 (t = tan(q/4) in [-0.309, 0.309]); slides, root position, velocities: all reals',
               'frames': 'orthogonal stack frames from the generator (axis-aligned and rotated, both handedness), rotated bodies, offset anchors',
               'core': '1- and 2-dof stacks; 3-dof stacks are extended (thorough)', 'outside': 'float round-off; root quaternion sign; known-finding cases'}
  ck.assumptions += ['reals for floats', 'sound identification axioms for atan2 / acos instantiated at the input angles', 'sqrt folded by solver lemmas against cos/sin candidates']
  replay_models = {}
  for ci_, (word, free_root, fi, handed, is_core) in enumerate(cfgs):
    spec = build_model(rng, word, free_root, fi, handed)
    xml = models.to_xml(spec)
    sys_ = mjcf.loads(xml)
    ex = models.exact_params(spec)
    keys = sorted(ex)
    ctx = core.Ctx(trig='tparam', fold=True)
    ctx.lemma_timeout = 5000
    ctx.tparam_bound = TMAX
    q, qd = [], []
    hinge_vars = []
    if free_root:
      q += [z3.Real('q%d' % i) for i in range(3)] + [F(x) if not isinstance(x, float) else F(repr(x)) for x in (root_override.get(ci_) or rng.choice(models.QUATS))]
      qd += [z3.Real('v%d' % i) for i in range(6)]
    for k, c in enumerate(word):
      v = z3.Real('q%d' % len(q))
      if c == 'h':
        hinge_vars.append(v)
      q.append(v)
      qd.append(z3.Real('v%d' % len(qd)))
    # register the t-parametrisation for hinge angles up front so that sqrt candidates and axioms can use sin/cos
    trig = {}
    for v in hinge_vars:
      sh, ch = ctx.sincos(core.s_div(v, 2))
      trig[v.decl().name()] = (2 * sh * ch, ch * ch - sh * sh, sh, ch)
    # slide coordinates also pass through cos(q/2) in brax's jcalc (rotation about a zero axis): parametrise them as well (chart |q| <= 2 is enough)
    for k, c in enumerate(word):
      pass
    chart = []
    cands = []
    for nm, (S, C, sh, ch) in trig.items():
      cands += [C, ch, C * ch]
    names = list(trig)
    for n1, n2 in itertools.combinations(names, 2):
      cands += [trig[n1][1] * trig[n2][1]]
    ctx.sqrt_candidates = [1] + cands
    qa, qda = core.obj_array(q), core.obj_array(qd)
    pars = {kx: core.consts(vx) for kx, vx in ex.items()}
    def f(q, qd, *ps):
      s = sys_.tree_replace({kx: p for kx, p in zip(keys, ps)})
      x, xd = kinematics.forward(s, q, qd)
      j, jd, _, _ = kinematics.world_to_joint(s, x, xd)
      return kinematics.inverse(s, j, jd)
    args = (qa, qda) + tuple(pars[kx] for kx in keys)
    tag = '%s%s/frame%d/%s' % ('free+' if free_root else '', word, fi, 'rh' if handed > 0 else 'lh')
    try:
      (q2, qd2), cj = core.run(ctx, f, *args)
    except core.SXUnsupported as ex_:
      ck.harness_error('%s: %s' % (tag, ex_))
      continue
    ck.log('traced', tag, 'guard folds', ctx.fold_stats, 'sqrt lemmas', ctx.lemma_stats)
    ck.traced('kinematics.forward+world_to_joint+inverse', cj)
    ck.extra.setdefault('sqrt_lemmas', 0)
    ck.extra['sqrt_lemmas'] += ctx.lemma_stats['queries']
    ck.extra.setdefault('predicate_folds', 0)
    ck.extra['predicate_folds'] += ctx.fold_stats['queries']
    replay_models[tag] = (xml, q, qd, {v.decl().name(): ctx.tvars[v.decl().name()].decl().name() for v in hinge_vars if v.decl().name() in ctx.tvars})
    # identification axioms for the transcendental applications
    ax = []
    for key, (v, nm, xs) in ctx.uf.items():
      for an, (S, C, sh, ch) in trig.items():
        ang = z3.Real(an)
        for sg in (1, -1):
          if nm == 'atan2':
            Y, X = xs
            ax.append(z3.Implies(z3.And(Y * C - X * (sg * S) == 0, X * C + Y * (sg * S) > 0), v == sg * ang))
          elif nm == 'acos':
            ax.append(z3.Implies(z3.And(xs[0] == C, sg * S >= 0), v == sg * ang))
          elif nm == 'asin':
            ax.append(z3.Implies(z3.And(xs[0] == sg * S, C >= 0), v == sg * ang))
      if nm == 'atan2':
        ax.append(z3.Implies(z3.And(xs[0] == 0, xs[1] > 0), v == 0))
      if nm == 'acos':
        ax.append(z3.Implies(xs[0] == 1, v == 0))
    fr = Fr.for_ctx(ctx)
    side = [fr.formula(s_, _top=False) for s_ in ctx.side] + [fr.formula(x) for x in ax] + chart
    nq = len(q)
    # case split on the sign of every hinge angle (keeps the sign(.) * acos(.) products of the Euler extraction linear per case)
    hts = [ctx.tvars[v.decl().name()] for v in hinge_vars if v.decl().name() in ctx.tvars]
    cases = list(itertools.product((1, -1), repeat=len(hts))) if hts else [()]
    for i in range(nq):
      if core.isc(q[i]):
        # root quaternion: up to sign, concrete
        continue
      claimed = True
      if word == 'hs' and i >= nq - len(word):
        claimed = False
      g = fr.eq(lift(q2[i]), lift(q[i]))
      for cs in cases:
        sg = [(t >= 0) if c > 0 else (t <= 0) for t, c in zip(hts, cs)]
        ck.add(Ob('q-roundtrip/%s/q%d/signs=%s' % (tag, i, ''.join('+' if c > 0 else '-' for c in cs)), side + sg, g, timeout=100 if is_core else 60, core=is_core and claimed,
                  meta={'tag': tag, 'i': i, 'what': 'q', 'finding_key': None if claimed else KNOWN}))
    if free_root:
      rq = [q[3 + c] for c in range(4)]
      e1 = all(core.isc(q2[3 + c]) and abs(float(q2[3 + c]) - float(rq[c])) < 1e-12 for c in range(4))
      e2 = all(core.isc(q2[3 + c]) and abs(float(q2[3 + c]) + float(rq[c])) < 1e-12 for c in range(4))
      if all(core.isc(q2[3 + c]) for c in range(4)):
        ck.add(Ob('q-roundtrip/%s/root quaternion up to sign' % tag, [], z3.BoolVal(bool(e1 or e2)), timeout=5, meta={'tag': tag, 'i': 3, 'what': 'q'}))
      else:
        gq = z3.Or(z3.And([fr.eq(lift(q2[3 + c]), lift(rq[c])) for c in range(4)]), z3.And([fr.eq(lift(q2[3 + c]), lift(core.s_neg(rq[c]))) for c in range(4)]))
        ck.add(Ob('q-roundtrip/%s/root quaternion up to sign' % tag, side, gq, timeout=120, meta={'tag': tag, 'i': 3, 'what': 'q'}))
    # velocities: free links and links attached by a single hinge
    nd = len(qd)
    for i in range(nd):
      in_stack = i >= nd - len(word)
      claimed = (not in_stack) or word == 'h'
      g = fr.eq(lift(qd2[i]), lift(qd[i]))
      ck.add(Ob('qd-roundtrip/%s/qd%d' % (tag, i), side, g, timeout=120, core=is_core and claimed,
                meta={'tag': tag, 'i': i, 'what': 'qd', 'finding_key': None if claimed else KNOWN}))
    ck.add(Ob('twin/reach/' + tag, side, None, expect='sat', timeout=60, core=is_core))
    if word == 'hh' and free_root and handed > 0:
      i0 = nq - 2
      ck.add(Ob('twin/swapped-angles/' + tag, side + [z3.Not(fr.eq(lift(q2[i0]), lift(q[i0 + 1])))], None, expect='sat', timeout=60))
      ck.samples.append({'model': tag, 'xml': xml, 'n_uninterpreted_apps': len(ctx.uf), 'q_out_cell': str(q2[i0])[:200]})
    if len(ck.samples) < 1:
      ck.samples.append({'model': tag, 'xml': xml})

  def fv(s):
    s = str(s).rstrip('?')
    return float(F(s)) if '/' in s else float(s)

  def replay(ob):
    tag = ob.meta['tag']
    xml, q, qd, tmap = replay_models[tag]
    m = {k: fv(v) for k, v in (ob.model or {}).items()}
    sys_ = mjcf.loads(xml)
    i = ob.meta['i']
    vn = [m.get(c.decl().name(), 0.0) for c in qd]
    hinge_pos = [k for k, c in enumerate(q) if not core.isc(c) and c.decl().name() in tmap]

    def attempt(tvals):
      qn = []
      for c in q:
        if core.isc(c):
          qn.append(float(c))
        elif c.decl().name() in tmap:
          qn.append(4 * math.atan(tvals[c.decl().name()]))
        else:
          qn.append(m.get(c.decl().name(), 0.0))
      x, xd = kinematics.forward(sys_, jp.array(qn), jp.array(vn))
      j, jd, _, _ = kinematics.world_to_joint(sys_, x, xd)
      q2, qd2 = kinematics.inverse(sys_, j, jd)
      if ob.meta['what'] == 'q':
        if 'quaternion' in ob.name:
          a_, b_ = np.asarray(q2[3:7]), np.array(qn[3:7])
          bad = not (np.allclose(a_, b_, atol=1e-8) or np.allclose(a_, -b_, atol=1e-8))
        else:
          bad = abs(float(q2[i]) - qn[i]) > 1e-7
      else:
        bad = abs(float(qd2[i]) - vn[i]) > 1e-7
      return bad, {'xml': xml, 'q': qn, 'qd': vn, 'q_roundtrip': np.asarray(q2).tolist(), 'qd_roundtrip': np.asarray(qd2).tolist(), 'index': i}
    t0 = {hn: m.get(tn, 0.0) for hn, tn in tmap.items()}
    bad, info = attempt(t0)
    if bad or not tmap:
      return bad, info
    # the extraction's atan2/acos applications are abstracted, so the model's witness may sit at another point of the chart than a real one:
    # refine the witness over a grid of the chart (the verdict `sat` is the solver's; this only looks for a concrete input exhibiting it)
    grid = [0.309, -0.309, 0.28, -0.28, 0.2, -0.2, 0.1, -0.1, 0.03]
    for combo in itertools.product(grid, repeat=len(tmap)):
      bad, info = attempt(dict(zip(tmap, combo)))
      if bad:
        info['note'] = 'witness refined over the chart grid'
        return True, info
    return False, info
  for p in ('q-roundtrip', 'qd-roundtrip'):
    ck.replayers[p] = replay
  ck.discharge()
  ck.cross_check(n=1, timeout=10)


if __name__ == '__main__':
  report.main('C08', run)
