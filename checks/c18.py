"""C18 — running statistics equal the statistics of all data seen (inductive step from an arbitrary valid state).

Encoded: running_statistics.update (weights / no weights, 1-2 batch axes, nested dict), init_state, normalize, denormalize.
Pre-state: count n > 0 (or the real init state), mean = S1/n, summed_variance = S2 - S1^2/n with n, S1, S2 symbolic per
feature; batch and weights symbolic.  Post-state must have the same form for (n+W, S1+sum w x, S2+sum w x^2): a rational
identity, so with the induction every history of updates is covered.
"""
import itertools
from fractions import Fraction as F

import jax
import jax.numpy as jp
import numpy as np
import z3

from lib import report
from sx import core, validate
from sx.core import lift
from sx.fr import Fr
from sx.solve import Ob


def run(ck, a):
  from brax.training.acme import running_statistics as rs
  thorough = ck.tier == 'thorough'
  feats = (1, 2, 3) if thorough else (1, 2)
  bshapes = [(1,), (2,), (3,), (4,), (1, 2), (2, 2), (2, 3), (3, 2)] if thorough else [(1,), (2,), (3,), (2, 2)]
  ck.bounds = {'features': list(feats), 'batch_shapes': [list(b) for b in bshapes], 'weights': 'arbitrary reals >= 0 (integer repetition: {0..4}^k, k<=3)',
               'state': 'arbitrary valid state (n>0, S1, S2 symbolic with S2*n >= S1^2, i.e. non-negative variance) and the init state', 'outside': 'pmap_axis_name/psum path; float round-off'}
  ck.assumptions += ['reals for floats', 'sqrt as y>=0, y^2=a', 'count n > 0 and total weight > 0']
  lo, hi = z3.Real('lo'), z3.Real('hi')

  std_pending = []

  def state_of(n, S1, S2):
    mean = np.array([s1 / n for s1 in S1], dtype=object)
    sv = np.array([s2 - s1 * s1 / n for s1, s2 in zip(S1, S2)], dtype=object)
    return mean, sv

  def upd(weighted):
    def f(count, mean, sv, std, batch, w, lo_, hi_):
      st = rs.RunningStatisticsState(mean=mean, std=std, count=count, summed_variance=sv)
      o = rs.update(st, batch, weights=w if weighted else None, std_min_value=lo_, std_max_value=hi_)
      return o.count, o.mean, o.summed_variance, o.std
    return f

  def ref_post(n, S1, S2, X, W):
    """X: (B, feat) flattened batch cells, W: (B,) weights -> (count, mean, sv, var)"""
    Wt = sum(W)
    cnt = n + Wt
    mean, sv, var = [], [], []
    for j in range(X.shape[1]):
      s1 = S1[j] + sum(W[i] * X[i, j] for i in range(X.shape[0]))
      s2 = S2[j] + sum(W[i] * X[i, j] * X[i, j] for i in range(X.shape[0]))
      mean.append(s1 / cnt)
      sv.append(s2 - s1 * s1 / cnt)
      var.append(s2 / cnt - (s1 / cnt) * (s1 / cnt))
    return cnt, mean, sv, var

  def add_update_obs(tag, ctx, outs, n, S1, S2, X, W, pre, feat, from_init=False, meta=None):
    cnt, mean, sv, std = outs
    rc, rm, rsv, rvar = ref_post(n, S1, S2, X, W)
    fr = Fr.for_ctx(ctx)
    eqs = [fr.eq(lift(cnt[()]), lift(rc))]
    for j in range(feat):
      eqs.append(fr.eq(lift(mean[j]), lift(rm[j])))
      eqs.append(fr.eq(lift(sv[j]), lift(rsv[j])))
    side = [fr.formula(s_, _top=False) for s_ in ctx.side]
    ob = Ob('update/%s/count,mean,summed_variance' % tag, side + pre, z3.And(eqs), timeout=60)
    ob.meta.update(meta or {})
    ck.add(ob)
    # definedness: the identities above are stated after clearing denominators; every denominator the code divides by must be non-zero for all
    # admissible inputs (count > 0, weights >= 0 -- a batch of total weight ZERO is admissible after the first batch and must leave the state unchanged)
    dens = {}
    for kind_, dterm in ctx.defined:
      dens[dterm.get_id()] = dterm
    if dens:
      obd = Ob('update/%s/every division is defined (non-zero denominators)' % tag, side + pre, z3.And([fr.formula(d_ != 0) for d_ in dens.values()]), timeout=60)
      obd.meta.update(meta or {})
      ck.add(obd)
    # std is observable: it must equal clip(sqrt(max(population variance, 0)), lo, hi), stated without the square root:
    #   G: lo <= std <= hi;  lo^2 <= v <= hi^2 -> std^2 == v;  v < lo^2 -> std == lo;  v > hi^2 -> std == hi   (v = max(var, 0))
    # Decided by two lemmas (L1: every radicand in std equals v -- a rational identity; L2: G with the radicand abstracted to a
    # fresh variable); if a lemma fails the full query G (hard for nlsat, but counterexamples are found quickly) decides.
    frs = Fr()
    sside = [frs.formula(s_) for s_ in ctx.side]
    ymap = {y.decl().name(): (y, arg) for (y, arg) in ctx.sqrts.values()}
    for j in range(feat):
      var = lift(rvar[j])
      v = z3.If(var >= 0, var, 0)
      sj = lift(std[j])
      def G(sj_, v_):
        return z3.And(sj_ >= lo, sj_ <= hi, z3.Implies(z3.And(v_ >= lo * lo, v_ <= hi * hi), sj_ * sj_ == v_),
                      z3.Implies(v_ < lo * lo, sj_ == lo), z3.Implies(v_ > hi * hi, sj_ == hi))
      ys = [ymap[nm] for nm in core.free_vars([sj]) if nm in ymap]
      name = 'update/%s/std[%d] == clip(sqrt(max(var,0)), lo, hi)' % (tag, j)
      full = Ob(name, sside + pre + [lo > 0, lo <= hi], frs.formula(G(sj, v)), timeout=90, meta=dict(meta or {}))
      lemmas = []
      if len(ys) == 1:
        y, arg = ys[0]
        fr2 = Fr()
        # L1: the radicand is max(summed_variance', 0) / count' of the code's own outputs (which the update obligation proves equal to the
        #     reference accumulator);  L3: reference algebra  S2'/n' - (S1'/n')^2 == (S2' - S1'^2/n')/n';  L2: clip structure.
        svj, cn = lift(sv[j]), lift(cnt[()])
        lemmas.append(Ob('lemma/' + name + '/L1 radicand == max(summed_variance,0)/count', [cn != 0], fr2.formula(arg == z3.If(svj >= 0, svj, 0) / cn), timeout=60,
                         core=False, kind='lemma'))
        fr3 = Fr()
        lemmas.append(Ob('lemma/' + name + '/L3a var == summed_variance/count (reference algebra)', [lift(rc) != 0],
                         fr3.formula(var == lift(rsv[j]) / lift(rc)), timeout=60, core=False, kind='lemma'))
        lemmas.append(Ob('lemma/' + name + '/L3b count > 0', pre, lift(rc) > 0, timeout=60, core=False, kind='lemma'))
        A = z3.Real('A!abs')
        lemmas.append(Ob('lemma/' + name + '/L2 clip structure', [y >= 0, y * y == A, A >= 0, lo > 0, lo <= hi], G(sj, A), timeout=30, core=False, kind='lemma'))
      for l_ in lemmas:
        ck.add(l_)
      std_pending.append((full, lemmas))
    return fr

  # ---------------- inductive step, unweighted and weighted, all batch shapes
  for feat, bs in itertools.product(feats, bshapes):
    B = int(np.prod(bs))
    for weighted in (False, True):
      tag = 'feat=%d/batch=%s/%s' % (feat, 'x'.join(map(str, bs)), 'weighted' if weighted else 'plain')
      ctx = core.Ctx()
      n = z3.Real('n')
      S1, S2 = core.reals('S1', (feat,)), core.reals('S2', (feat,))
      mean, sv = state_of(n, S1, S2)
      x = core.reals('x', tuple(bs) + (feat,))
      w = core.reals('w', tuple(bs))
      std0 = core.reals('std0', (feat,))
      cnt_in = np.empty((), dtype=object)
      cnt_in[()] = n
      lo_a, hi_a = np.empty((), dtype=object), np.empty((), dtype=object)
      lo_a[()], hi_a[()] = lo, hi
      args = (cnt_in, mean, sv, std0, x, w, lo_a, hi_a)
      f = upd(weighted)
      outs, cj = core.run(ctx, f, *args)
      ck.traced('running_statistics.update', cj)
      X = x.reshape(B, feat)
      W = list(w.reshape(-1)) if weighted else [1] * B
      pre = [n > 0] + ([wi >= 0 for wi in W] if weighted else []) + [S2[j] * n >= S1[j] * S1[j] for j in range(feat)]
      add_update_obs(tag, ctx, outs, n, S1, S2, X, W, pre, feat, meta=dict(kind='update', feat=feat, bs=list(bs), weighted=weighted))
      if feat == feats[0] and bs in ((2,), (2, 2)):
        try:
          ck.validated += validate.validate(ctx, f, args, outs, n=4, seed=ck.seed,
                                            require=pre + [lo > F(1, 1000), hi > lo, n > F(1, 2)] + [wi > F(1, 10) for wi in W if not core.isc(wi)],
                                            lo=0.2, hi=3.0)
        except validate.ValidationError as ex:
          ck.harness_error('translator validation %s: %s' % (tag, ex))
        # mutation twins: wrong denominators / old mean
        cnt, mo, svo, _ = outs
        rc, rm, rsv, _ = ref_post(n, S1, S2, X, W)
        frm = Fr()
        wrong_mean = (S1[0] + sum(W[i] * X[i, 0] for i in range(B))) / (n + sum(W) + 1)
        ck.add(Ob('twin/%s/mean with count+1' % tag, pre + [z3.Not(frm.eq(lift(mo[0]), lift(wrong_mean)))], None, expect='sat', timeout=30))
        ck.add(Ob('twin/reach/%s' % tag, pre + [lo > 0, lo <= hi], None, expect='sat', timeout=30))

  # ---------------- from the real init state
  for feat, bs in itertools.product(feats[:2], bshapes[:3]):
    B = int(np.prod(bs))
    tag = 'init/feat=%d/batch=%s' % (feat, 'x'.join(map(str, bs)))
    ctx = core.Ctx()
    x = core.reals('x', tuple(bs) + (feat,))
    w = core.reals('w', tuple(bs))
    lo_a, hi_a = np.empty((), dtype=object), np.empty((), dtype=object)
    lo_a[()], hi_a[()] = lo, hi
    def f(batch, w, lo_, hi_):
      st = rs.init_state(jp.zeros((feat,)))
      o = rs.update(st, batch, weights=w, std_min_value=lo_, std_max_value=hi_)
      return o.count, o.mean, o.summed_variance, o.std
    outs, cj = core.run(ctx, f, x, w, lo_a, hi_a)
    ck.traced('running_statistics.init_state+update', cj)
    W = list(w.reshape(-1))
    pre = [wi >= 0 for wi in W] + [sum(W) > 0]
    add_update_obs(tag, ctx, outs, 0, [0] * feat, [0] * feat, x.reshape(B, feat), W, pre, feat, meta=dict(kind='update', feat=feat, bs=list(bs), weighted=True, init=True))

  # ---------------- integer weights == repetition
  maxk = 3 if thorough else 2
  wsets = [ws for k in range(1, maxk + 1) for ws in itertools.product(range(0, 5), repeat=k) if sum(ws) > 0]
  if not thorough:
    wsets = [ws for ws in wsets if max(ws) <= 3]
  for ws in wsets:
    k = len(ws)
    feat = 1
    n = z3.Real('n')
    S1, S2 = core.reals('S1', (feat,)), core.reals('S2', (feat,))
    mean, sv = state_of(n, S1, S2)
    x = core.reals('x', (k, feat))
    rep = np.array([x[i] for i in range(k) for _ in range(ws[i])], dtype=object).reshape(sum(ws), feat)
    std0 = core.reals('std0', (feat,))
    cnt_in = np.empty((), dtype=object)
    cnt_in[()] = n
    lo_a, hi_a = np.empty((), dtype=object), np.empty((), dtype=object)
    lo_a[()], hi_a[()] = lo, hi
    c1, c2 = core.Ctx(), core.Ctx()
    o1, _ = core.run(c1, upd(True), cnt_in, mean, sv, std0, x, core.consts(list(ws)), lo_a, hi_a)
    o2, _ = core.run(c2, upd(False), cnt_in, mean, sv, std0, rep, core.consts([1] * sum(ws)), lo_a, hi_a)
    fr = Fr()
    eqs = [fr.eq(lift(o1[0][()]), lift(o2[0][()])), fr.eq(lift(o1[1][0]), lift(o2[1][0])), fr.eq(lift(o1[2][0]), lift(o2[2][0]))]
    (y1, a1), = c1.sqrts.values()
    (y2, a2), = c2.sqrts.values()
    eqs.append(fr.eq(a1, a2))
    ob = Ob('weights==repetition/w=%s' % (ws,), [n > 0], z3.And(eqs), timeout=60)
    ob.meta.update(kind='rep', ws=list(ws))
    ck.add(ob)

  # ---------------- re-batching: one update on a batch == two updates on any split of it
  for B in ((2, 3, 4) if thorough else (2, 3)):
    for cut in range(1, B):
      feat = 1
      n = z3.Real('n')
      S1, S2 = core.reals('S1', (feat,)), core.reals('S2', (feat,))
      mean, sv = state_of(n, S1, S2)
      x = core.reals('x', (B, feat))
      w = core.reals('w', (B,))
      std0 = core.reals('std0', (feat,))
      cnt_in = np.empty((), dtype=object)
      cnt_in[()] = n
      def two(count, mean, sv, std, batch, w):
        st = rs.RunningStatisticsState(mean=mean, std=std, count=count, summed_variance=sv)
        st = rs.update(st, batch[:cut], weights=w[:cut])
        o = rs.update(st, batch[cut:], weights=w[cut:])
        return o.count, o.mean, o.summed_variance
      def one(count, mean, sv, std, batch, w):
        st = rs.RunningStatisticsState(mean=mean, std=std, count=count, summed_variance=sv)
        o = rs.update(st, batch, weights=w)
        return o.count, o.mean, o.summed_variance
      c1, c2 = core.Ctx(), core.Ctx()
      o1, _ = core.run(c1, one, cnt_in, mean, sv, std0, x, w)
      o2, _ = core.run(c2, two, cnt_in, mean, sv, std0, x, w)
      fr = Fr()
      eqs = [fr.eq(lift(p[()] if p.shape == () else p[0]), lift(q[()] if q.shape == () else q[0])) for p, q in zip(o1, o2)]
      pre = [n > 0] + [wi >= 0 for wi in w] + [sum(w[:cut]) > 0]
      ck.add(Ob('rebatch/B=%d/cut=%d' % (B, cut), pre, z3.And(eqs), timeout=60))

  # ---------------- nested dict of two arrays, 2 batch axes vs flattened
  def nested(count, ma, mb, sva, svb, xa, xb):
    st = rs.RunningStatisticsState(mean={'a': ma, 'b': mb}, std={'a': jp.ones_like(ma), 'b': jp.ones_like(mb)}, count=count,
                                   summed_variance={'a': sva, 'b': svb})
    o = rs.update(st, {'a': xa, 'b': xb})
    return o.count, o.mean['a'], o.mean['b'], o.summed_variance['a'], o.summed_variance['b']
  n = z3.Real('n')
  S1a, S2a, S1b, S2b = core.reals('S1a', (1,)), core.reals('S2a', (1,)), core.reals('S1b', (2,)), core.reals('S2b', (2,))
  ma, sva = state_of(n, S1a, S2a)
  mb, svb = state_of(n, S1b, S2b)
  xa, xb = core.reals('xa', (2, 2, 1)), core.reals('xb', (2, 2, 2))
  cnt_in = np.empty((), dtype=object)
  cnt_in[()] = n
  ctx = core.Ctx()
  o, cj = core.run(ctx, nested, cnt_in, ma, mb, sva, svb, xa, xb)
  ck.traced('running_statistics.update (nested dict, 2 batch axes)', cj)
  rc, rma, rsva, _ = ref_post(n, S1a, S2a, xa.reshape(4, 1), [1] * 4)
  _, rmb, rsvb, _ = ref_post(n, S1b, S2b, xb.reshape(4, 2), [1] * 4)
  fr = Fr()
  eqs = [fr.eq(lift(o[0][()]), lift(rc)), fr.eq(lift(o[1][0]), lift(rma[0])), fr.eq(lift(o[3][0]), lift(rsva[0]))]
  eqs += [fr.eq(lift(o[2][j]), lift(rmb[j])) for j in range(2)] + [fr.eq(lift(o[4][j]), lift(rsvb[j])) for j in range(2)]
  ck.add(Ob('update/nested-dict/2-batch-axes', [n > 0], z3.And(eqs), timeout=60))

  # ---------------- normalize / denormalize
  def nd(x, xi, m, s):
    ms = rs.NestedMeanStd(mean={'f': m, 'i': jp.zeros((2,))}, std={'f': s, 'i': jp.ones((2,))})
    nz = rs.normalize({'f': x, 'i': xi}, ms)
    back = rs.denormalize(nz, ms)
    return nz['f'], nz['i'], back['f'], back['i']
  x, m, s = core.reals('x', (2, 2)), core.reals('m', (2,)), core.reals('s', (2,))
  xi = core.ints('xi', (2, 2))
  ctx = core.Ctx()
  (nf, ni, bf, bi), cj = core.run(ctx, nd, x, xi, m, s)
  ck.traced('running_statistics.normalize+denormalize', cj)
  fr = Fr()
  eqs = [fr.eq(lift(bf[i, j]), lift(x[i, j])) for i in range(2) for j in range(2)]
  eqs += [fr.eq(lift(nf[i, j]), (lift(x[i, j]) - m[j]) / s[j]) for i in range(2) for j in range(2)]
  eqs += [lift(ni[i, j]) == xi.arr[i, j] for i in range(2) for j in range(2)] + [lift(bi[i, j]) == xi.arr[i, j] for i in range(2) for j in range(2)]
  ck.add(Ob('normalize/denormalize round trip, int leaves untouched', [sj > 0 for sj in s], z3.And(eqs), timeout=30))
  def nclip(x, m, s, mx):
    ms = rs.NestedMeanStd(mean=m, std=s)
    return rs.normalize(x, ms, max_abs_value=mx)
  mx = z3.Real('mx')
  mxa = np.empty((), dtype=object)
  mxa[()] = mx
  ctx = core.Ctx()
  out, cj = core.run(ctx, nclip, x[0], m, s, mxa)
  fr = Fr()
  goals = []
  for j in range(2):
    raw = (x[0, j] - m[j]) / s[j]
    goals += [fr.formula(lift(out[j]) <= mx), fr.formula(lift(out[j]) >= -mx),
              fr.formula(z3.Implies(z3.And(raw <= mx, raw >= -mx), lift(out[j]) == raw))]
  ck.add(Ob('normalize with max_abs_value clips to [-max, max]', [sj > 0 for sj in s] + [mx > 0], z3.And(goals), timeout=30))

  # ---------------- replay
  def fval(v):
    v = str(v).rstrip('?')
    return float(F(v)) if '/' in v else float(v)

  def replay(ob):
    m = {k: fval(v) for k, v in (ob.model or {}).items() if not k.startswith('sqrt')}
    kind = ob.meta.get('kind')
    rng = np.random.RandomState(0)
    # concrete re-run: arbitrary valid state from the model (or defaults), compare with numpy population statistics
    nn = max(m.get('n', 2.0), 1e-3)
    s1 = m.get('S1_0', 0.3)
    s2 = max(m.get('S2_0', 1.0), s1 * s1 / nn + 1e-3)
    st = rs.RunningStatisticsState(mean=jp.array([s1 / nn]), std=jp.ones((1,)), count=jp.array(nn), summed_variance=jp.array([s2 - s1 * s1 / nn]))
    if kind == 'rep':
      ws = ob.meta['ws']
      xs = np.array([[m.get('x_%d_0' % i, float(i + 1))] for i in range(len(ws))])
      o1 = rs.update(st, jp.array(xs), weights=jp.array(ws, dtype=float))
      o2 = rs.update(st, jp.array(np.repeat(xs, ws, axis=0)))
      bad = not (np.allclose(o1.mean, o2.mean, rtol=1e-9) and np.allclose(o1.std, o2.std, rtol=1e-9) and np.allclose(o1.count, o2.count))
      return bad, {'weights': ws, 'x': xs.tolist(), 'weighted': [float(o1.mean[0]), float(o1.std[0])], 'repeated': [float(o2.mean[0]), float(o2.std[0])]}
    if kind == 'update':
      feat, bs, weighted = ob.meta['feat'], tuple(ob.meta['bs']), ob.meta['weighted']
      B = int(np.prod(bs))
      xs = np.zeros(bs + (feat,))
      for idx in np.ndindex(*xs.shape):
        xs[idx] = m.get('x' + ''.join('_%d' % i for i in idx), rng.randn())
      w = np.ones(bs)
      if weighted:
        for idx in np.ndindex(*bs):
          w[idx] = max(m.get('w' + ''.join('_%d' % i for i in idx), 1.0), 0.0)
        if w.sum() <= 0 and ob.meta.get('init'):
          w[(0,) * len(bs)] = 1.0
      if ob.meta.get('init'):
        st = rs.init_state(jp.zeros((feat,)))
        nn, S1v, S2v = 0.0, np.zeros(feat), np.zeros(feat)
      else:
        S1v = np.array([m.get('S1_%d' % j, 0.3) for j in range(feat)])
        S2v = np.array([max(m.get('S2_%d' % j, 1.0), S1v[j] ** 2 / nn) for j in range(feat)])
        st = rs.RunningStatisticsState(mean=jp.array(S1v / nn), std=jp.ones((feat,)), count=jp.array(nn), summed_variance=jp.array(S2v - S1v ** 2 / nn))
      lo_v, hi_v = m.get('lo', 1e-6), m.get('hi', 1e6)
      if not (0 < lo_v <= hi_v):
        lo_v, hi_v = 1e-6, 1e6
      o = rs.update(st, jp.array(xs), weights=jp.array(w) if weighted else None, std_min_value=lo_v, std_max_value=hi_v)
      X, Wf = xs.reshape(B, feat), w.reshape(B)
      cnt = nn + Wf.sum()
      t1 = S1v + (Wf[:, None] * X).sum(0)
      t2 = S2v + (Wf[:, None] * X ** 2).sum(0)
      mean = t1 / cnt
      std = np.clip(np.sqrt(np.maximum(t2 / cnt - mean * mean, 0)), lo_v, hi_v)
      bad = not (np.allclose(np.asarray(o.mean), mean, rtol=1e-9, atol=1e-12) and np.allclose(np.asarray(o.std), std, rtol=1e-7, atol=1e-12)
                 and np.isclose(float(o.count), cnt))
      return bad, {'state': [nn, S1v.tolist(), S2v.tolist()], 'x': xs.tolist(), 'w': w.tolist(), 'bounds': [lo_v, hi_v],
                   'observed': [np.asarray(o.mean).tolist(), np.asarray(o.std).tolist()], 'expected': [mean.tolist(), std.tolist()]}
    return True, {'model': ob.model, 'note': 'two-program identity violated (model above)'}
  for p in ('update/', 'weights==repetition/', 'rebatch/', 'normalize'):
    ck.replayers[p] = replay
  ck.discharge()
  # phase 2: std obligations -- by lemmas where both hold, otherwise the full query
  via = 0
  for full, lemmas in std_pending:
    if lemmas and all(l_.status == 'unsat' for l_ in lemmas):
      full.build()
      full.status, full.time, full.trivial = 'unsat', 0.0, True
      full.meta['via_lemmas'] = [l_.name for l_ in lemmas]
      via += 1
    ck.add(full)
  ck.extra['std_obligations_discharged_via_lemmas'] = via
  ck.notes.append('obligations counted under trivially_discharged include the std obligations implied by their two solver-discharged lemmas')
  ck.discharge()
  ck.cross_check(n=2)


if __name__ == '__main__':
  report.main('C18', run)
