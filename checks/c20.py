"""C20 — the tanh-normal policy distribution is a correct probability model; the PPO inference function reports it faithfully.

Encoded: NormalTanhDistribution.sample / sample_no_postprocessing / mode / log_prob / entropy / postprocess / inverse_postprocess,
TanhBijector.forward_log_det_jacobian, make_inference_fn(make_ppo_networks(...)) with running_statistics.normalize.
exp / log / log1p / tanh / atanh are uninterpreted applications with sound two-sided real axioms; jax.random.normal is an
environment stub (fresh epsilon determined by the key).  "Finite for arbitrarily large pre-squash values" is decided under the
SATURATION abstraction: exp may be exactly 0 and tanh exactly +-1 (what float32 does for |x| > ~10..90): every log argument must
stay > 0, every log1p argument > -1, every atanh argument strictly inside (-1,1), every denominator non-zero.
"""
import math
from fractions import Fraction as F

import jax
import jax.numpy as jp
import numpy as np
import z3

from lib import report
from sx import core, validate
from sx.core import lift
from sx.fr import Fr
from sx.solve import Ob


def domain_sites(ctx):
  """(description, condition that must hold) for every partial transcendental application / division recorded in ctx"""
  out = []
  for key, (v, nm, xs) in ctx.uf.items():
    if nm == 'log':
      out.append(('log argument > 0', xs[0] > 0))
    elif nm == 'log1p':
      out.append(('log1p argument > -1', xs[0] > -1))
    elif nm == 'atanh':
      out.append(('atanh argument inside (-1,1)', z3.And(xs[0] > -1, xs[0] < 1)))
  for kind, d in ctx.defined:
    out.append(('denominator != 0', d != 0))
  return out


def run(ck, a):
  from brax.training import distribution as D
  from brax.training import networks
  from brax.training.acme import running_statistics as rs
  from brax.training.agents.ppo import networks as ppo_networks
  thorough = ck.tier == 'thorough'
  sizes = (1, 2, 3) if thorough else (1, 2)
  ck.bounds = {'event_sizes': list(sizes), 'batch_axes': '0 and 1 leading axis', 'parameters': 'all real loc / raw scale / actions; min_std, var_scale symbolic > 0',
               'saturation': 'exp >= 0 (may be 0), tanh in [-1,1] (may be +-1)', 'outside': 'ulp accuracy of the log-det-Jacobian; the semantic identity fldj == log(1-tanh^2) '
               'is checked structurally against the stable closed form 2(log 2 - x - softplus(-2x)) (its equality with log(1 - tanh^2 x) is a paper fact, not re-derived by the solver)'}
  ck.assumptions += ['reals for floats', 'exp/log/log1p/tanh/atanh/logistic: uninterpreted with sound bounds', 'jax.random.normal: fresh epsilon determined by the key']
  keyc = core.Typed(np.array([z3.Int('k0'), z3.Int('k1')], dtype=object), np.uint32)

  for n in sizes:
    for bshape in ((), (2,)):
      tag = 'event=%d/batch=%s' % (n, 'x'.join(map(str, bshape)) or '-')
      P = core.reals('p', bshape + (2 * n,))
      X = core.reals('x', bshape + (n,))
      ms, vs = z3.Real('min_std'), z3.Real('var_scale')
      msa, vsa = np.empty((), dtype=object), np.empty((), dtype=object)
      msa[()], vsa[()] = ms, vs
      pre = [ms > 0, vs > 0]

      # ---- (2) log_prob structure + scale floor, reparameterised sample, mode, range
      def harness(P, X, key, ms_, vs_):
        d = D.NormalTanhDistribution(n, min_std=ms_, var_scale=vs_)
        nd = d.create_dist(P)
        bij = D.TanhBijector()
        lp = d.log_prob(P, X)
        ref = jp.sum(-0.5 * jp.square((X - nd.loc) / nd.scale) - jp.log(nd.scale) - 0.5 * jp.log(2.0 * jp.pi) - bij.forward_log_det_jacobian(X), axis=-1)
        raw = d.sample_no_postprocessing(P, key)
        eps = jax.random.normal(key, shape=nd.loc.shape)
        smp = d.sample(P, key)
        mode = d.mode(P)
        loc, rawscale = jp.split(P, 2, axis=-1)
        ent = d.entropy(P, key)
        ent_ref = jp.sum(0.5 + 0.5 * jp.log(2.0 * jp.pi) + jp.log(nd.scale) + bij.forward_log_det_jacobian(raw), axis=-1)
        return dict(lp=lp, ref=ref, raw=raw, raw_ref=nd.loc + nd.scale * eps, smp=smp, smp_ref=jp.tanh(raw), mode=mode, mode_ref=jp.tanh(loc), scale=nd.scale,
                    floor=jp.ones_like(nd.scale) * ms_ * vs_, ent=ent, ent_ref=ent_ref, inv=d.inverse_postprocess(d.postprocess(X)), loc=nd.loc, loc_ref=loc)
      ctx = core.Ctx(assume=pre)
      o, cj = core.run(ctx, harness, P, X, keyc, msa, vsa)
      ck.traced('NormalTanhDistribution.{log_prob,sample,mode,entropy,create_dist}', cj)
      ck.stubs |= ctx.stubs
      fr = Fr()
      flat = lambda z: np.atleast_1d(z).reshape(-1)
      def eqs(u, v):
        return z3.And([fr.eq(lift(x), lift(y)) for x, y in zip(flat(u), flat(v))])
      side = [fr.formula(s_) for s_ in ctx.side]
      ck.add(Ob('log_prob == sum(normal log-density - log|d tanh|)/' + tag, side + pre, eqs(o['lp'], o['ref']), timeout=60, meta=dict(n=n, kind='lp')))
      ck.add(Ob('entropy == normal entropy + E[log|d tanh|] at the sample/' + tag, side + pre, eqs(o['ent'], o['ent_ref']), timeout=60, meta=dict(n=n, kind='ent')))
      ck.add(Ob('sample is reparameterised: loc + scale*eps(key)/' + tag, side + pre, z3.And(eqs(o['raw'], o['raw_ref']), eqs(o['smp'], o['smp_ref'])), timeout=60, meta=dict(n=n, kind='rep')))
      ck.add(Ob('mode == tanh(loc), loc is the first half of the parameters/' + tag, side + pre, z3.And(eqs(o['mode'], o['mode_ref']), eqs(o['loc'], o['loc_ref'])), timeout=60, meta=dict(n=n, kind='mode')))
      rng_goal = z3.And([z3.And(lift(x) >= -1, lift(x) <= 1) for x in list(flat(o['smp'])) + list(flat(o['mode']))])
      ck.add(Ob('sampled and mode actions lie in [-1,1]/' + tag, side + pre, rng_goal, timeout=60, meta=dict(n=n, kind='range')))
      ck.add(Ob('scale >= min_std*var_scale/' + tag, side + pre, z3.And([fr.formula(lift(x) >= lift(y)) for x, y in zip(flat(o['scale']), flat(o['floor']))]), timeout=60,
                meta=dict(n=n, kind='floor')))
      ck.add(Ob('twin/reach/' + tag, side + pre, None, expect='sat', timeout=30))
      if n == sizes[0] and bshape == ():
        ck.add(Ob('twin/scale-floor-is-tight/' + tag, side + pre + [z3.Not(z3.And([fr.formula(lift(x) >= 2 * lift(y)) for x, y in zip(flat(o['scale']), flat(o['floor']))]))], None,
                  expect='sat', timeout=30))
        ck.samples.append({'config': tag, 'log_prob_term': str(o['lp'])[:400]})

      # ---- (3) log-det-Jacobian: structural identity with the stable closed form
      def fldj(x):
        return D.TanhBijector().forward_log_det_jacobian(x), 2.0 * (jp.log(2.0) - x - jp.logaddexp(-2.0 * x, 0.0))
      ctx3 = core.Ctx()
      (f1, f2), cj3 = core.run(ctx3, fldj, X)
      ck.traced('TanhBijector.forward_log_det_jacobian', cj3)
      g = [core.s_eq(x, y) for x, y in zip(flat(f1), flat(f2))]
      g = [e for e in g if not (isinstance(e, bool) and e)]
      ck.add(Ob('fldj == 2(log 2 - x - softplus(-2x))/' + tag, ctx3.side, z3.And(g) if g else True, timeout=30, meta=dict(n=n, kind='fldj')))
      # semantic anchor decidable from the sound axioms: 2 log 2 - 2|x| - 2 <= fldj(x) <= 2 log 2 - 2|x|  (true for log(1 - tanh^2 x): pins the
      # asymptotic slope -2|x| and the offset; independent of the structural identity above)
      LOG2 = F(repr(math.log(2.0)))
      anchors = []
      for xv, fv_ in zip(flat(X), flat(f1)):
        ax = z3.If(xv >= 0, xv, -xv)
        anchors += [lift(fv_) <= 2 * LOG2 - 2 * ax + F(1, 10**12), lift(fv_) >= 2 * LOG2 - 2 * ax - 2 - F(1, 10**12)]
      ck.add(Ob('fldj within [2log2-2|x|-2, 2log2-2|x|]/' + tag, ctx3.side, z3.And(anchors), timeout=60, meta=dict(n=n, kind='fldjneg')))

      # ---- (4) finiteness under saturation: every partial function stays inside its domain
      ctx4 = core.Ctx()
      ctx4.saturate = True
      def sat_h(P, X, key, ms_, vs_):
        d = D.NormalTanhDistribution(n, min_std=ms_, var_scale=vs_)
        raw = d.sample_no_postprocessing(P, key)
        return d.log_prob(P, X), d.log_prob(P, raw), d.entropy(P, key), d.postprocess(raw)
      _, cj4 = core.run(ctx4, sat_h, P, X, keyc, msa, vsa)
      for k, (desc, cond) in enumerate(domain_sites(ctx4)):
        ck.add(Ob('saturation/%s/site%d %s' % (tag, k, desc), ctx4.side + pre, cond, timeout=30, meta=dict(n=n, kind='sat')))

  # ---------------- (6) PPO inference function
  for n in ((1, 2) if thorough else (1,)):
    obs_size, hid = 2, (3,)
    nets = ppo_networks.make_ppo_networks(obs_size, n, preprocess_observations_fn=rs.normalize, policy_hidden_layer_sizes=hid, value_hidden_layer_sizes=hid)
    pparams = nets.policy_network.init(jax.random.PRNGKey(0))
    leaves, tdef = jax.tree.flatten(pparams)
    sym_leaves = [core.reals('w%d' % i, tuple(l.shape)) for i, l in enumerate(leaves)]
    obs = core.reals('obs', (2, obs_size))
    mean, std = core.reals('mean', (obs_size,)), core.reals('std', (obs_size,))
    infer = ppo_networks.make_inference_fn(nets)
    dist = nets.parametric_action_distribution
    def inf_h(obs, mean, std, key, *ws):
      pp = jax.tree.unflatten(tdef, ws)
      norm = rs.NestedMeanStd(mean=mean, std=std)
      act, extra = infer((norm, pp), deterministic=False)(obs, key)
      dact, _ = infer((norm, pp), deterministic=True)(obs, key)
      # reference composed independently from the pieces
      logits = nets.policy_network.apply(norm, pp, obs)
      logits_ref = nets.policy_network.apply(rs.NestedMeanStd(mean=jp.zeros_like(mean), std=jp.ones_like(std)), pp, (obs - mean) / std)
      raw = dist.sample_no_postprocessing(logits, key)
      return dict(act=act, logp=extra['log_prob'], raw=extra['raw_action'], dact=dact, act_ref=jp.tanh(raw), logp_ref=dist.log_prob(logits, raw), raw_ref=raw,
                  dact_ref=dist.mode(logits), logits=logits, logits_ref=logits_ref)
    ctx = core.Ctx()
    o, cj = core.run(ctx, inf_h, obs, mean, std, keyc, *sym_leaves)
    ck.traced('ppo.networks.make_inference_fn(make_ppo_networks(...)) policy', cj)
    fr = Fr()
    flat = lambda z: np.atleast_1d(z).reshape(-1)
    pre = [s_ > 0 for s_ in std]
    side = [fr.formula(s_) for s_ in ctx.side]
    def eqs(u, v):
      es = [fr.eq(lift(x), lift(y)) for x, y in zip(flat(u), flat(v))]
      return z3.And(es)
    ck.add(Ob('inference: action == tanh(raw), log_prob == log_prob(logits, raw), raw_action is the pre-squash sample/act=%d' % n, side + pre,
              z3.And(eqs(o['act'], o['act_ref']), eqs(o['logp'], o['logp_ref']), eqs(o['raw'], o['raw_ref'])), timeout=120, meta=dict(n=n, kind='inf')))
    ck.add(Ob('inference: deterministic policy returns the mode/act=%d' % n, side + pre, eqs(o['dact'], o['dact_ref']), timeout=120, meta=dict(n=n, kind='inf')))
    ck.add(Ob('inference: observations are normalised with the supplied statistics/act=%d' % n, side + pre, eqs(o['logits'], o['logits_ref']), timeout=120, meta=dict(n=n, kind='inf')))
    # dict observations (policy_obs_key selects the entry the policy sees): the SELECTED entry must be the normalised one
    if n == 1:
      dnets = ppo_networks.make_ppo_networks({'state': (obs_size,), 'aux': (3,)}, n, preprocess_observations_fn=rs.normalize, policy_hidden_layer_sizes=hid,
                                             value_hidden_layer_sizes=hid, policy_obs_key='state', value_obs_key='state')
      dleaves, dtdef = jax.tree.flatten(dnets.policy_network.init(jax.random.PRNGKey(0)))
      dsym = [core.reals('dw%d' % i, tuple(l.shape)) for i, l in enumerate(dleaves)]
      aux, amean, astd = core.reals('aux', (2, 3)), core.reals('amean', (3,)), core.reals('astd', (3,))
      dinfer = ppo_networks.make_inference_fn(dnets)
      def inf_d(obs, aux, mean, std, amean, astd, key, *ws):
        pp = jax.tree.unflatten(dtdef, ws)
        norm = rs.NestedMeanStd(mean={'state': mean, 'aux': amean}, std={'state': std, 'aux': astd})
        ident = rs.NestedMeanStd(mean={'state': jp.zeros_like(mean), 'aux': jp.zeros_like(amean)}, std={'state': jp.ones_like(std), 'aux': jp.ones_like(astd)})
        od = {'state': obs, 'aux': aux}
        dact, _ = dinfer((norm, pp), deterministic=True)(od, key)
        logits = dnets.policy_network.apply(norm, pp, od)
        logits_ref = dnets.policy_network.apply(ident, pp, {'state': (obs - mean) / std, 'aux': (aux - amean) / astd})
        return dict(dact=dact, dact_ref=dnets.parametric_action_distribution.mode(logits_ref), logits=logits, logits_ref=logits_ref)
      ctxd = core.Ctx()
      od_, cjd = core.run(ctxd, inf_d, obs, aux, mean, std, amean, astd, keyc, *dsym)
      ck.traced('ppo.networks.make_inference_fn(make_ppo_networks(dict observations)) policy', cjd)
      frd = Fr()
      pred = [s_ > 0 for s_ in std] + [s_ > 0 for s_ in astd]
      sided = [frd.formula(s_) for s_ in ctxd.side]
      eqd = lambda u, v: z3.And([frd.eq(lift(x), lift(y)) for x, y in zip(flat(u), flat(v))])
      ck.add(Ob('inference: dict observations are normalised with the supplied statistics (selected entry)/act=%d' % n, sided + pred,
                z3.And(eqd(od_['logits'], od_['logits_ref']), eqd(od_['dact'], od_['dact_ref'])), timeout=120, meta=dict(n=n, kind='infdict')))
    # finiteness of the inference outputs under saturation
    ctx5 = core.Ctx()
    ctx5.saturate = True
    core.run(ctx5, inf_h, obs, mean, std, keyc, *sym_leaves)
    for k, (desc, cond) in enumerate(domain_sites(ctx5)):
      ck.add(Ob('saturation/inference act=%d/site%d %s' % (n, k, desc), ctx5.side + pre, cond, timeout=30, meta=dict(n=n, kind='satinf')))

  # ---------------- replay
  def fv(s):
    s = str(s).rstrip('?')
    return float(F(s)) if '/' in s else float(s)

  def replay(ob):
    m = {k: fv(v) for k, v in (ob.model or {}).items() if not isinstance(v, str) or v not in ('true', 'false')}
    n, kind = ob.meta.get('n', 1), ob.meta.get('kind')
    ms_, vs_ = max(m.get('min_std', 0.001), 1e-6), max(m.get('var_scale', 1.0), 1e-6)
    d = D.NormalTanhDistribution(n, min_std=ms_, var_scale=vs_)
    log = []
    bad = False
    # candidate points: the model point, and the same point scaled up (the abstraction of exp/tanh may place the model's witness at
    # the saturated end of the range, which in real arithmetic lies at large magnitudes)
    base_p = np.array([m.get('p_%d' % i, m.get('p_0_%d' % i, 0.0)) for i in range(2 * n)])
    base_x = np.array([m.get('x_%d' % i, m.get('x_0_%d' % i, 0.0)) for i in range(n)])
    for scale in (1.0, 10.0, 100.0, 1000.0):
      for dtype in (jp.float64, jp.float32):
        for sgn in (1.0, -1.0):
          p = jp.asarray(base_p * scale + sgn * (scale > 1) * scale * np.r_[np.zeros(n), np.ones(n)], dtype=dtype)
          x = jp.asarray(base_x * scale + (scale > 1) * scale, dtype=dtype)
          key = jax.random.PRNGKey(0)
          nd = d.create_dist(p)
          lp = d.log_prob(p, x)
          xx = np.asarray(x, dtype=np.float64)
          loc, sc = np.asarray(nd.loc, dtype=np.float64), np.asarray(nd.scale, dtype=np.float64)
          true_fldj = np.array([2.0 * (math.log(2.0) - v - (max(-2 * v, 0) + math.log1p(math.exp(-abs(2 * v))))) for v in xx])
          ref = float(np.sum(-0.5 * ((xx - loc) / sc) ** 2 - np.log(sc) - 0.5 * math.log(2 * math.pi) - true_fldj))
          tol = 1e-4 * (1 + abs(ref)) if dtype == jp.float32 else 1e-9 * (1 + abs(ref))
          if not np.isfinite(float(lp)) or abs(float(lp) - ref) > tol:
            bad = True
            log.append('log_prob(%s) at params %s x %s: observed %r expected %r' % (dtype.__name__, np.asarray(p).tolist(), np.asarray(x).tolist(), float(lp), ref))
          softplus = np.array([max(v, 0) + math.log1p(math.exp(-abs(v))) for v in np.asarray(p, dtype=np.float64)[n:]])
          if np.any(np.asarray(nd.scale, dtype=np.float64) < ms_ * vs_ * (1 - 1e-6)) or not np.allclose(sc, (softplus + ms_) * vs_, rtol=1e-4):
            bad = True
            log.append('scale %s below floor %r or != (softplus+min_std)*var_scale at raw %s' % (np.asarray(nd.scale).tolist(), ms_ * vs_, np.asarray(p)[n:].tolist()))
          s1 = d.sample(p, key)
          raw = d.sample_no_postprocessing(p, key)
          if not np.all(np.abs(np.asarray(s1)) <= 1) or not np.all(np.isfinite(np.asarray(raw))):
            bad = True
            log.append('sample out of range / non-finite')
          f = D.TanhBijector().forward_log_det_jacobian(x)
          if not np.all(np.isfinite(np.asarray(f))) or not np.allclose(np.asarray(f, dtype=np.float64), true_fldj, rtol=1e-4, atol=1e-4):
            bad = True
            log.append('fldj(%s)=%s expected %s' % (np.asarray(x).tolist(), np.asarray(f).tolist(), true_fldj.tolist()))
          ent = d.entropy(p, key)
          if not np.isfinite(float(ent)):
            bad = True
            log.append('entropy non-finite')
          if not np.allclose(np.asarray(d.mode(p), dtype=np.float64), np.tanh(np.asarray(p, dtype=np.float64)[:n]), atol=1e-6):
            bad = True
            log.append('mode != tanh(loc)')
    if kind in ('inf', 'satinf') or ob.name.startswith('inference'):
      # the PPO policy at increasingly large action means (float32, as used in training)
      nets = ppo_networks.make_ppo_networks(2, n, preprocess_observations_fn=rs.normalize, policy_hidden_layer_sizes=(3,), value_hidden_layer_sizes=(3,))
      pp = nets.policy_network.init(jax.random.PRNGKey(0))
      infer = ppo_networks.make_inference_fn(nets)
      norm = rs.NestedMeanStd(mean=jp.array([0.1, -0.2]), std=jp.array([0.5, 2.0]))
      for gain in (1.0, 30.0, 300.0):
        pp2 = jax.tree.map(lambda z: z * gain if z.ndim == 1 else z, pp)
        pp2 = jax.tree.map(lambda z: z + (gain > 1) * gain * 0.1 if z.ndim == 1 else z, pp2)
        obs = jp.array([[0.3, -1.2], [2.0, 0.5]], dtype=jp.float32)
        key = jax.random.PRNGKey(1)
        act, extra = infer((norm, pp2), deterministic=False)(obs, key)
        logits = nets.policy_network.apply(norm, pp2, obs)
        dist = nets.parametric_action_distribution
        raw = dist.sample_no_postprocessing(logits, key)
        lp = dist.log_prob(logits, raw)
        ok = (np.all(np.isfinite(np.asarray(extra['raw_action']))) and np.all(np.isfinite(np.asarray(extra['log_prob']))) and
              np.allclose(np.asarray(extra['raw_action']), np.asarray(raw), rtol=1e-5, atol=1e-5) and np.allclose(np.asarray(extra['log_prob']), np.asarray(lp), rtol=1e-4, atol=1e-4) and
              np.allclose(np.asarray(act), np.tanh(np.asarray(raw)), atol=1e-6))
        logits_ref = nets.policy_network.apply(rs.NestedMeanStd(mean=jp.zeros(2), std=jp.ones(2)), pp2, (obs - norm.mean) / norm.std)
        ok = ok and np.allclose(np.asarray(logits), np.asarray(logits_ref), rtol=1e-5, atol=1e-5)
        dact, _ = infer((norm, pp2), deterministic=True)(obs, key)
        ok = ok and np.allclose(np.asarray(dact), np.asarray(dist.mode(logits)), atol=1e-6)
        if not ok:
          bad = True
          log.append('inference fn at gain %g: raw_action %s vs %s, log_prob %s vs %s' % (gain, np.asarray(extra['raw_action']).tolist(), np.asarray(raw).tolist(),
                                                                                         np.asarray(extra['log_prob']).tolist(), np.asarray(lp).tolist()))
    if kind == 'infdict':
      dn = ppo_networks.make_ppo_networks({'state': (2,), 'aux': (3,)}, n, preprocess_observations_fn=rs.normalize, policy_hidden_layer_sizes=(3,), value_hidden_layer_sizes=(3,),
                                          policy_obs_key='state', value_obs_key='state')
      ppd = dn.policy_network.init(jax.random.PRNGKey(0))
      ppd = jax.tree.map(lambda z: z + 0.3 if z.ndim == 1 else z, ppd)
      od = {'state': jp.array([[0.3, -1.2], [2.0, 0.5]]), 'aux': jp.array([[0.1, 0.2, 0.3], [-1.0, 0.5, 2.0]])}
      normd = rs.NestedMeanStd(mean={'state': jp.array([0.1, -0.2]), 'aux': jp.array([0.0, 1.0, -1.0])}, std={'state': jp.array([0.5, 2.0]), 'aux': jp.array([1.0, 3.0, 0.25])})
      identd = rs.NestedMeanStd(mean={'state': jp.zeros(2), 'aux': jp.zeros(3)}, std={'state': jp.ones(2), 'aux': jp.ones(3)})
      lg = dn.policy_network.apply(normd, ppd, od)
      lg_ref = dn.policy_network.apply(identd, ppd, {k_: (od[k_] - normd.mean[k_]) / normd.std[k_] for k_ in od})
      if not np.allclose(np.asarray(lg), np.asarray(lg_ref), rtol=1e-6, atol=1e-6):
        bad = True
        log.append('dict observations: policy logits %s, with the selected entry normalised by hand %s' % (np.asarray(lg).tolist(), np.asarray(lg_ref).tolist()))
    return bad, {'model': ob.model, 'log': log[:8], 'note': 'replay evaluates the real functions at the model point and along a ray of scaled points (float64 and float32)'}
  for p in ('log_prob', 'entropy', 'sample', 'mode', 'sampled', 'scale', 'fldj', 'saturation', 'inference'):
    ck.replayers[p] = replay
  ck.discharge()
  ck.cross_check(n=2)


if __name__ == '__main__':
  report.main('C20', run)
