"""C11 — actuators produce the modelled joint force on the actuated joint only.

Encoded: brax.actuator.to_tau on systems produced by the real mjcf.loads from generator models (0-10 actuators of mixed
kinds, several per joint, on hinge/slide joints anywhere in a stack, with free joints shifting q vs qd indices), for ALL
real (ctrl, q, qd); and with gain/gear/bias/ranges symbolic (all parameter values).
Oracle: MuJoCo's actuator semantics written as terms from the fields of the mujoco.MjModel compiled from the same XML
(independent of brax's loader), validated against real mujoco qfrc_actuator on random points every run.
"""
import random
from fractions import Fraction as F

import jax
import jax.numpy as jp
import numpy as np
import z3

from gen import models
from lib import report
from sx import core, validate
from sx.core import lift
from sx.solve import Ob


def fr(x):
  return F(repr(float(x)))


def mj_spec(mj, ctrl, q, qd):
  """MuJoCo actuator force per dof as terms (joint transmissions, affine bias, fixed gain)"""
  import mujoco
  tau = [0] * mj.nv
  for i in range(mj.nu):
    assert mj.actuator_trntype[i] == mujoco.mjtTrn.mjTRN_JOINT
    j = mj.actuator_trnid[i, 0]
    qa, da = mj.jnt_qposadr[j], mj.jnt_dofadr[j]
    gear = fr(mj.actuator_gear[i, 0])
    c = ctrl[i]
    if mj.actuator_ctrllimited[i]:
      lo, hi = fr(mj.actuator_ctrlrange[i, 0]), fr(mj.actuator_ctrlrange[i, 1])
      c = core.s_min(core.s_max(c, lo), hi)
    length, vel = core.s_mul(gear, q[qa]), core.s_mul(gear, qd[da])
    f = core.s_mul(fr(mj.actuator_gainprm[i, 0]), c)
    if mj.actuator_biastype[i] != 0:
      f = core.s_add(f, fr(mj.actuator_biasprm[i, 0]))
      f = core.s_add(f, core.s_mul(fr(mj.actuator_biasprm[i, 1]), length))
      f = core.s_add(f, core.s_mul(fr(mj.actuator_biasprm[i, 2]), vel))
    if mj.actuator_forcelimited[i]:
      lo, hi = fr(mj.actuator_forcerange[i, 0]), fr(mj.actuator_forcerange[i, 1])
      f = core.s_min(core.s_max(f, lo), hi)
    tau[da] = core.s_add(tau[da], core.s_mul(gear, f))
  return tau


def validate_spec(mj, rng, n=10):
  """spec vs real MuJoCo qfrc_actuator at random points"""
  import mujoco
  d = mujoco.MjData(mj)
  pts = 0
  for _ in range(n):
    qpos = np.array(mj.qpos0)
    for j in range(mj.njnt):
      if mj.jnt_type[j] in (2, 3):
        qpos[mj.jnt_qposadr[j]] = rng.uniform(-2, 2)
    qvel = np.array([rng.uniform(-2, 2) for _ in range(mj.nv)])
    ctrl = np.array([rng.choice([rng.uniform(-3, 3), -1, 1, 2, 0, 1.5, -0.5]) for _ in range(mj.nu)])
    d.qpos[:], d.qvel[:] = qpos, qvel
    d.ctrl[:] = ctrl
    mujoco.mj_forward(mj, d)
    ref = mj_spec(mj, [fr(x) for x in ctrl], [fr(x) for x in qpos], [fr(x) for x in qvel])
    ref = np.array([float(x) for x in ref])
    if not np.allclose(ref, d.qfrc_actuator, rtol=1e-9, atol=1e-9):
      raise AssertionError('actuator spec disagrees with MuJoCo: %r vs %r' % (ref, d.qfrc_actuator))
    pts += 1
  return pts


def run(ck, a):
  import mujoco
  from brax import actuator
  from brax.io import mjcf
  thorough = ck.tier == 'thorough'
  rng = random.Random(1000 + ck.seed)
  nmodels = 40 if thorough else 14
  ck.bounds = {'models': nmodels, 'actuators_per_model': '0-10, mixed motor/position/velocity/general(affine), several per joint',
               'inputs': 'all real ctrl, q, qd (stronger than the [-3,3] of the property)', 'symbolic-parameter harness': 'nu<=2 on one or two dofs, all real gain/gear/bias/ranges',
               'outside': 'float round-off; non-joint transmissions (rejected by validate_model, C14)'}
  ck.assumptions += ['reals for floats', 'MuJoCo semantics as a term spec validated against real mujoco each run']
  replay_data = {}
  for mi in range(nmodels):
    nact = [0, 1, 2, 3, 4, 6, 10][mi % 7]
    spec = models.random_forest(rng, nlinks=rng.randint(1, 4), actuators=nact, free_root_p=0.6, max_stack=3)
    # make several actuators share a joint regularly
    if len(spec['actuators']) >= 2 and mi % 2 == 0:
      spec['actuators'][1]['joint'] = spec['actuators'][0]['joint']
    xml = models.to_xml(spec)
    mj = mujoco.MjModel.from_xml_string(xml)
    sys_ = mjcf.loads(xml)
    ck.oracle_validated += validate_spec(mj, rng, n=6)
    nq, nv, nu = sys_.q_size(), sys_.qd_size(), sys_.act_size()
    assert (nq, nv, nu) == (mj.nq, mj.nv, mj.nu), 'loader changed sizes'
    ctrl, q, qd = core.reals('c', (nu,)), core.reals('q', (nq,)), core.reals('v', (nv,))
    f = lambda c, q, v: actuator.to_tau(sys_, c, q, v)
    ctx = core.Ctx()
    tau, cj = core.run(ctx, f, ctrl, q, qd)
    ck.traced('actuator.to_tau', cj)
    if mi < 4 and nu:
      ck.validated += validate.validate(ctx, f, (ctrl, q, qd), tau, n=5, seed=ck.seed + mi, lo=-3, hi=3)
    ref = mj_spec(mj, list(ctrl), list(q), list(qd))
    tag = 'm%02d/nu=%d/nv=%d' % (mi, nu, nv)
    replay_data[tag] = xml
    eqs = [core.s_eq(tau[d], ref[d]) for d in range(nv)]
    goal = all(eqs) if all(isinstance(e, bool) for e in eqs) else z3.And([e if not isinstance(e, bool) else z3.BoolVal(e) for e in eqs])
    ck.add(Ob('tau==mujoco/' + tag, [], goal, timeout=60, meta={'tag': tag}))
    actuated = {int(mj.jnt_dofadr[mj.actuator_trnid[i, 0]]) for i in range(nu)}
    unact = [d for d in range(nv) if d not in actuated]
    if unact:
      z = [core.s_eq(tau[d], 0) for d in unact]
      ck.add(Ob('unactuated-dofs-zero/' + tag, [], all(z) if all(isinstance(e, bool) for e in z) else z3.And([lift(e) for e in z]), timeout=30, meta={'tag': tag}))
    if nu and mi % 2 == 0:
      # monotone in each control, constant outside its range (two-copy queries on the real code's terms)
      for i in range(min(nu, 4)):
        c2 = ctrl.copy()
        c2[i] = z3.Real('c2_%d' % i)
        ctx2 = core.Ctx()
        tau2, _ = core.run(ctx2, f, c2, q, qd)
        d = int(mj.jnt_dofadr[mj.actuator_trnid[i, 0]])
        sgn = float(mj.actuator_gainprm[i, 0]) * float(mj.actuator_gear[i, 0])
        if sgn != 0:
          mono = lift(tau2[d]) >= lift(tau[d]) if sgn > 0 else lift(tau2[d]) <= lift(tau[d])
          ck.add(Ob('monotone/%s/act=%d' % (tag, i), [c2[i] >= ctrl[i]], mono, timeout=30, meta={'tag': tag}))
        if mj.actuator_ctrllimited[i]:
          lo, hi = fr(mj.actuator_ctrlrange[i, 0]), fr(mj.actuator_ctrlrange[i, 1])
          same = z3.And([lift(tau2[k]) == lift(tau[k]) for k in range(nv)])
          ck.add(Ob('constant-above-range/%s/act=%d' % (tag, i), [ctrl[i] >= lift(hi), c2[i] >= lift(hi)], same, timeout=30, meta={'tag': tag}))
          ck.add(Ob('constant-below-range/%s/act=%d' % (tag, i), [ctrl[i] <= lift(lo), c2[i] <= lift(lo)], same, timeout=30, meta={'tag': tag}))
    if nu and mi == 2:
      ck.samples.append({'model_xml': xml, 'tau_term_dof0': str(tau[0])[:300]})
    if nu and mi in (2, 3):
      # mutation twins: gear applied to the bias twice; q index taken for qd
      bad = list(ref)
      i = 0
      jd = int(mj.jnt_dofadr[mj.actuator_trnid[i, 0]])
      bad[jd] = core.s_add(bad[jd], lift(ctrl[i]) * 0 + 1)
      ck.add(Ob('twin/wrong-oracle/' + tag, [z3.Not(z3.And([lift(tau[d]) == lift(bad[d]) for d in range(nv)]))], None, expect='sat', timeout=30))

  # ---------------- symbolic parameters: every gain / gear / bias / range value
  base_xmls = []
  for k, (free, word, acts) in enumerate([(False, 'h', 1), (True, 'hs', 2), (True, 'sh', 2), (False, 'hh', 3)] if thorough else [(False, 'h', 1), (True, 'hs', 2)]):
    r2 = random.Random(k)
    spec = models.random_forest(r2, nlinks=1, free_root_p=0.0, stack_words=[word])
    if free:
      spec['bodies'].insert(0, {'name': 'root', 'parent': -1, 'pos': (0, 0, 1), 'quat': (1, 0, 0, 0), 'joints': [{'name': 'jf', 'type': 'free'}],
                                'geoms': [{'type': 'sphere', 'size': (0.1,), 'contype': 0, 'conaffinity': 0}], 'mass': 1.0, 'inertia': (0.1, 0.1, 0.1)})
      spec['bodies'][1]['parent'] = 0
    jn = [j['name'] for b in spec['bodies'] for j in b['joints'] if j['type'] != 'free']
    spec['actuators'] = [{'kind': 'general', 'joint': jn[(i // 2) % len(jn)] if acts > len(jn) else jn[i % len(jn)] if i else jn[0], 'gear': 1, 'gain': 1, 'bq': 1, 'bqd': 1,
                          'ctrlrange': (-1, 1), 'forcerange': (-1, 1)} for i in range(acts)]
    if acts >= 2:
      spec['actuators'][1]['joint'] = spec['actuators'][0]['joint']   # two actuators on one joint
    xml = models.to_xml(spec)
    sys_ = mjcf.loads(xml)
    mj = mujoco.MjModel.from_xml_string(xml)
    nq, nv, nu = sys_.q_size(), sys_.qd_size(), sys_.act_size()
    P = {n: core.reals(n, (nu,)) for n in ('gain', 'gear', 'bq', 'bqd', 'clo', 'chi', 'flo', 'fhi')}
    ctrl, q, qd = core.reals('c', (nu,)), core.reals('q', (nq,)), core.reals('v', (nv,))
    def fs(c, q, v, gain, gear, bq, bqd, clo, chi, flo, fhi):
      s = sys_.tree_replace({'actuator.gain': gain, 'actuator.gear': gear, 'actuator.bias_q': bq, 'actuator.bias_qd': bqd,
                             'actuator.ctrl_range': jp.stack([clo, chi], axis=1), 'actuator.force_range': jp.stack([flo, fhi], axis=1)})
      return actuator.to_tau(s, c, q, v)
    ctx = core.Ctx()
    args = (ctrl, q, qd, P['gain'], P['gear'], P['bq'], P['bqd'], P['clo'], P['chi'], P['flo'], P['fhi'])
    tau, cj = core.run(ctx, fs, *args)
    ck.traced('actuator.to_tau (symbolic actuator parameters)', cj)
    pre = [P['clo'][i] <= P['chi'][i] for i in range(nu)] + [P['flo'][i] <= P['fhi'][i] for i in range(nu)]
    ref = [0] * nv
    for i in range(nu):
      j = mj.actuator_trnid[i, 0]
      qa, da = int(mj.jnt_qposadr[j]), int(mj.jnt_dofadr[j])
      c = core.s_min(core.s_max(ctrl[i], P['clo'][i]), P['chi'][i])
      fo = P['gain'][i] * c + P['bq'][i] * (P['gear'][i] * q[qa]) + P['bqd'][i] * (P['gear'][i] * qd[da])
      fo = core.s_min(core.s_max(fo, P['flo'][i]), P['fhi'][i])
      ref[da] = ref[da] + P['gear'][i] * fo
    tag = 'sym%d/%s%s/nu=%d' % (k, 'free+' if free else '', word, nu)
    ck.add(Ob('tau==spec/' + tag, pre, z3.And([lift(tau[d]) == lift(ref[d]) for d in range(nv)]), timeout=120, meta={'tag': tag, 'sym': True}))
    replay_data[tag] = xml
    c2 = ctrl.copy()
    c2[0] = z3.Real('c2_0')
    ctx2 = core.Ctx()
    tau2, _ = core.run(ctx2, fs, c2, *args[1:])
    d0 = int(mj.jnt_dofadr[mj.actuator_trnid[0, 0]])
    ck.add(Ob('monotone/' + tag, pre + [c2[0] >= ctrl[0], P['gain'][0] > 0, P['gear'][0] > 0], lift(tau2[d0]) >= lift(tau[d0]), timeout=120, meta={'tag': tag, 'sym': True}))
    ck.add(Ob('constant-above-range/' + tag, pre + [ctrl[0] >= P['chi'][0], c2[0] >= P['chi'][0]], z3.And([lift(tau2[d]) == lift(tau[d]) for d in range(nv)]),
              timeout=120, meta={'tag': tag, 'sym': True}))
    ck.add(Ob('twin/reach/' + tag, pre + [ctrl[0] > P['chi'][0], P['gain'][0] > 0], None, expect='sat', timeout=30))

  def val(s):
    s = str(s).rstrip('?')
    return float(F(s)) if '/' in s else float(s)

  def replay(ob):
    tag = ob.meta.get('tag')
    xml = replay_data.get(tag)
    if xml is None or ob.meta.get('sym'):
      return True, {'model': ob.model, 'xml': xml, 'note': 'symbolic-parameter model: counterexample is the assignment above'}
    mj = mujoco.MjModel.from_xml_string(xml)
    sys_ = mjcf.loads(xml)
    m = {k: val(v) for k, v in (ob.model or {}).items()}
    def point(prefix2=None):
      ctrl = np.array([m.get('c_%d' % i, 0.0) for i in range(mj.nu)])
      if prefix2:
        for i in range(mj.nu):
          if 'c2_%d' % i in m:
            ctrl[i] = m['c2_%d' % i]
      q = np.array(mj.qpos0)
      for j in range(mj.njnt):
        if mj.jnt_type[j] in (2, 3):
          q[mj.jnt_qposadr[j]] = m.get('q_%d' % mj.jnt_qposadr[j], 0.0)
      v = np.array([m.get('v_%d' % i, 0.0) for i in range(mj.nv)])
      return ctrl, q, v
    ctrl, q, v = point()
    tau = np.asarray(actuator.to_tau(sys_, jp.array(ctrl), jp.array(q), jp.array(v)))
    d = mujoco.MjData(mj)
    d.qpos[:], d.qvel[:], d.ctrl[:] = q, v, ctrl
    mujoco.mj_forward(mj, d)
    info = {'xml': xml, 'ctrl': ctrl.tolist(), 'q': q.tolist(), 'qd': v.tolist(), 'brax_tau': tau.tolist(), 'mujoco_qfrc_actuator': d.qfrc_actuator.tolist()}
    if not np.allclose(tau, d.qfrc_actuator, rtol=1e-9, atol=1e-9):
      return True, info
    if ob.name.startswith(('monotone', 'constant')):
      c2, _, _ = point(True)
      tau2 = np.asarray(actuator.to_tau(sys_, jp.array(c2), jp.array(q), jp.array(v)))
      info.update(ctrl2=c2.tolist(), brax_tau2=tau2.tolist())
      if ob.name.startswith('constant'):
        return (not np.allclose(tau, tau2, atol=1e-12)), info
      return True, info
    return False, info
  for p in ('tau==', 'unactuated', 'monotone', 'constant'):
    ck.replayers[p] = replay
  ck.discharge()
  ck.cross_check(n=3)


if __name__ == '__main__':
  report.main('C11', run)
