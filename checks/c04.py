"""C04 — internal forces obey Newton's first and third laws.

Momentum (inductive step): spring.pipeline.step and positional.pipeline.step are symbolically executed with EVERY array field of State an
independent symbolic input (x, xd, x_i, xd_i, j, jd, a_p, a_c, q, qd; masses are the model's exact constants) together with the control;
transcendental applications are uninterpreted.  Obligation: sum_i m_i xd_i'.vel == sum_i m_i xd_i.vel + (sum m_i) g dt.  Because the
pre-state is arbitrary (not even consistent), one step covers histories of any length, stiff or unstable, and all control sequences.
Two-body collision scenes: the contact geometry returned by contact.get (dist, pos, frame, elasticity, friction) is ALSO arbitrary symbolic.
The query is decided on the additive skeleton of the terms (large non-linear chunks abstracted to fresh variables: a generalisation, so
unsat is sound); a sat answer of the abstraction is confirmed by searching a concrete witness on the real code.
Rest clause: init(sys, q, 0) o step without gravity / control / springs stays exactly at rest (Tier B angles, symbolic positions).
"""
import itertools
import math
import random
from fractions import Fraction as F

import jax
import jax.numpy as jp
import numpy as np
import z3

from gen import models
from lib import report
from sx import core, validate
from sx.abstract import Abstractor
from sx.core import lift
from sx.fr import Fr
from sx.solve import Ob


def symbolic_state(st0, prefix='s'):
  """all array leaves symbolic, except `mass` which keeps the model's exact values"""
  leaves, tdef = jax.tree.flatten(st0)
  mass_leaf = np.asarray(st0.mass)
  syms = []
  for i, l in enumerate(leaves):
    if l.shape == mass_leaf.shape and np.allclose(np.asarray(l), mass_leaf) and l.ndim == 1:
      syms.append(core.consts([F(repr(float(v))) for v in np.asarray(l)]))
    else:
      syms.append(core.reals('%s%d' % (prefix, i), tuple(l.shape)))
  return syms, tdef


def run(ck, a):
  import brax.contact as bcontact
  from brax.base import Contact
  from brax.io import mjcf
  from brax.positional import pipeline as pp
  from brax.spring import pipeline as sp
  from brax.generalized import pipeline as gp
  thorough = ck.tier == 'thorough'
  rng = random.Random(400 + ck.seed)
  pipes = {'spring': sp, 'positional': pp}
  word_sets = [['h'], ['s'], ['hs'], ['h', 'h'], ['hh', 's'], ['sh']] if not thorough else [['h'], ['s'], ['hs'], ['sh'], ['hh'], ['ss'], ['hhh'], ['h', 'h'], ['hh', 's'], ['s', 'hs', 'h'], ['hsh']]
  ck.bounds = {'pipelines': list(pipes), 'models': 'free root + 1-3 links, stack words %s, limits and motor/position/velocity actuators, rotated bodies, offset anchors' % word_sets,
               'state': 'ALL State array fields symbolic and independent (arbitrary, not necessarily consistent) except masses; control symbolic',
               'collision scenes': 'two free bodies, one contact, contact geometry arbitrary symbolic (stubbed contact.get)', 'steps': 'one (inductive)',
               'rest clause': 'spring and positional only: q Tier B (hinge half-angles at exact rational points), slides/root positions symbolic, one step, gravity 0; generalized not decided',
               'outside': 'world-attached roots (momentum undefined); global velocity damping != 0; several simultaneous contacts on one link (upstream averages impulses per link)'}
  ck.assumptions += ['reals for floats', 'skeleton abstraction of large non-linear sub-terms (sound for unsat)', 'two-body scenes: contact.get stubbed by arbitrary contact geometry']
  replay_models = {}

  def momentum_obs(tag, pipe, vel2, vel1, masses, g, dt, pre=()):
    M = sum(masses)
    goals = []
    for c in range(3):
      lhs = 0
      rhs = core.s_mul(M, core.s_mul(core.num(g[c]), core.num(dt)))
      for i, m in enumerate(masses):
        lhs = core.s_add(lhs, core.s_mul(m, vel2[i, c]))
        rhs = core.s_add(rhs, core.s_mul(m, vel1[i, c]))
      goals.append(lift(lhs) == lift(rhs))
    ab = Abstractor(keep=30)
    g_abs = z3.And([ab.formula(x) for x in goals])
    ob = Ob('momentum/%s/%s' % (pipe, tag), list(pre), g_abs, timeout=120, meta={'tag': tag, 'pipe': pipe, 'abstract': True, 'chunks': len(ab.atoms)})
    ck.add(ob)
    ck.extra['abstracted_chunks'] = ck.extra.get('abstracted_chunks', 0) + len(ab.atoms)
    return goals

  for wi, words in enumerate(word_sets):
    spec = models.tree_model(rng, words, free_root=True, ortho=True, limits_p=0.7, actuators=min(2, len(words)), joint_props=True)
    spec['custom'] = ['<numeric name="ang_damping" data="-0.8"/>']      # global ANGULAR damping may be on (the property fixes only vel_damping = 0): it must not touch linear momentum
    xml = models.to_xml(spec)
    sys_ = mjcf.loads(xml)
    masses = [F(repr(float(m))) for m in np.asarray(sys_.link.inertia.mass)]
    dt, g = float(sys_.opt.timestep), [float(x) for x in np.asarray(sys_.gravity)]
    for pname, mod in pipes.items():
      st0 = mod.init(sys_, sys_.init_q, jp.zeros(sys_.qd_size()))
      syms, tdef = symbolic_state(st0)
      act = core.reals('act', (sys_.act_size(),))
      def f(act, *ls):
        st = jax.tree.unflatten(tdef, ls)
        o = mod.step(sys_, st, act)
        return o.xd_i.vel, st.xd_i.vel
      ctx = core.Ctx()
      try:
        (v2, v1), cj = core.run(ctx, f, act, *syms)
      except core.SXUnsupported as ex:
        ck.harness_error('%s %s: %s' % (pname, words, ex))
        continue
      ck.traced('%s.pipeline.step' % pname, cj)
      ck.log('traced momentum %s %s' % (pname, words))
      tag = 'free+' + '.'.join(words)
      replay_models[(pname, tag)] = (xml, None)
      goals = momentum_obs(tag, pname, v2, v1, masses, g, dt)
      if wi == 0:
        # mutation twin on the same abstraction: a wrong conservation law (without the gravity term) must be refutable
        ab = Abstractor(keep=30)
        bad = []
        for c in range(3):
          lhs = sum(lift(core.s_mul(m, v2[i, c])) for i, m in enumerate(masses))
          rhs = sum(lift(core.s_mul(m, v1[i, c])) for i, m in enumerate(masses))
          bad.append(ab.formula(lhs == rhs))
        ck.add(Ob('twin/no-gravity-law/%s/%s' % (pname, tag), [z3.Not(z3.And(bad))], None, expect='sat', timeout=60))
        if pname == 'spring':
          try:
            ck.validated += validate.validate(ctx, f, (act,) + tuple(syms), (v2, v1), n=2, seed=ck.seed, lo=0.2, hi=1.5)
          except validate.ValidationError as ex:
            ck.harness_error('translator validation %s %s: %s' % (pname, tag, ex))
          ck.samples.append({'model': tag, 'xml': xml, 'pipeline': pname, 'jaxpr_eqns': core.n_eqns(cj.jaxpr)})

  # ---- two-body collision scenes with arbitrary contact geometry
  scenes = [('sphere', 'sphere'), ('sphere', 'capsule'), ('capsule', 'capsule')]
  for (ka, kb) in scenes:
    def geom(kind):
      return {'type': kind, 'size': (0.1,) if kind == 'sphere' else (0.08, 0.2), 'pos': (0.05, 0, 0.02), 'quat': (1, 0, 0, 0), 'contype': 1, 'conaffinity': 1}
    spec = {'bodies': [{'name': 'b%d' % i, 'parent': -1, 'pos': (0.5 * i, 0, 1), 'quat': (1, 0, 0, 0), 'joints': [{'name': 'f%d' % i, 'type': 'free'}], 'geoms': [geom(k)],
                        'mass': [1.5, 0.7][i], 'inertia': (0.2, 0.25, 0.3), 'ipos': (0.02, 0, 0)} for i, k in enumerate((ka, kb))], 'actuators': [],
            'custom': ['<numeric name="ang_damping" data="-0.8"/>']}
    xml = models.to_xml(spec)
    sys_ = mjcf.loads(xml)
    masses = [F(repr(float(m))) for m in np.asarray(sys_.link.inertia.mass)]
    dt, g = float(sys_.opt.timestep), [float(x) for x in np.asarray(sys_.gravity)]
    x0 = jp.array([[0., 0, 1], [0.15, 0, 1]])
    for pname, mod in pipes.items():
      st0 = mod.init(sys_, sys_.init_q, jp.zeros(sys_.qd_size()))
      c0 = bcontact.get(sys_, st0.x)
      if c0 is None:
        ck.harness_error('scene %s-%s has no candidate contacts' % (ka, kb))
        continue
      cl, ctdef = jax.tree.flatten(c0)
      csyms = []
      for i, l in enumerate(cl):
        if np.issubdtype(np.asarray(l).dtype, np.integer):
          csyms.append(np.asarray(l))          # link_idx / geom ids stay concrete
        else:
          csyms.append(core.reals('c%d' % i, tuple(l.shape)))
      syms, tdef = symbolic_state(st0)
      nc = len(csyms)
      def f(*ls):
        cs, ss = ls[:nc], ls[nc:]
        con = jax.tree.unflatten(ctdef, cs)
        st = jax.tree.unflatten(tdef, ss)
        saved = bcontact.get
        bcontact.get = lambda s, x: con
        try:
          o = mod.step(sys_, st, jp.zeros(sys_.act_size()))
        finally:
          bcontact.get = saved
        return o.xd_i.vel, st.xd_i.vel
      ctx = core.Ctx()
      try:
        (v2, v1), cj = core.run(ctx, f, *csyms, *syms)
      except core.SXUnsupported as ex:
        ck.harness_error('%s collision %s-%s: %s' % (pname, ka, kb, ex))
        continue
      ck.traced('%s.pipeline.step (two-body collision, symbolic contact)' % pname, cj)
      tag = 'collision/%s-%s' % (ka, kb)
      replay_models[(pname, tag)] = (xml, 'collision')
      momentum_obs(tag, pname, v2, v1, masses, g, dt)
  ck.stubs.add('brax.contact.get replaced, in the two-body scenes only, by a Contact whose float fields are arbitrary symbolic values (link / geom ids concrete)')

  # ---- rest clause (Tier B): a system at rest, without gravity / control / springs, stays at rest
  from checks.c01 import half_point, TS
  rest_models = [(['h'], True), (['s', 'h'], False), (['hs'], True), (['hhh'], True)] if not thorough else [(['h'], True), (['s', 'h'], False), (['hs'], True), (['hhh'], True), (['hh'], False), (['h', 'sh'], True), (['hhh', 'h'], False)]
  rng3 = random.Random(404 + ck.seed)
  for words, free_root in rest_models:
    spec = models.tree_model(rng, words, free_root=free_root, root_word=None if free_root else 'h', ortho=True, limits_p=1.0, actuators=0, joint_props=False)
    for b in spec['bodies']:
      hinges = [j for j in b['joints'] if j['type'] == 'hinge']
      if len(hinges) == 3:
        # a LEFT-handed axis triple (x, z, y): the third Euler angle's sign depends on the stack's parity
        for j, ax in zip(hinges, [(1, 0, 0), (0, 0, 1), (0, 1, 0)] if rng3.random() < 0.75 else [(0, 1, 0), (0, 0, 1), (1, 0, 0)]):
          j['axis'] = ax
      for j in b['joints']:
        if j['type'] == 'hinge':
          # the configuration is chosen first, then an ASYMMETRIC range strictly around it (the mirrored angle -a is outside the range)
          j['_t'] = rng3.choice([t for t in TS if 0 < abs(t) <= F(1, 4)])
          a_ = 4 * math.atan(float(j['_t']))
          j['range'] = (round(a_ - 0.25, 3), round(a_ + 1.0, 3)) if rng3.random() < 0.5 else (round(a_ - 1.0, 3), round(a_ + 0.25, 3))
        elif j.get('range') is not None:
          j['range'] = (-1.5, 1.5)
    spec['gravity'] = (0, 0, 0)
    xml = models.to_xml(spec)
    sys_ = mjcf.loads(xml)
    ex = models.exact_params(spec)
    keys = sorted(ex)
    for pname, mod in list(pipes.items()):      # the generalized rest clause needs a symbolic 7x7 solve: not within the tiers' time caps (stated in bounds)
      hhh = any('hhh' in w for w in words)
      ctx = core.Ctx(fold=not hhh)      # 3-hinge stacks: no predicate depends on a symbolic input in a way worth folding, and the in-process lemma solver stalls on their terms
      ctx.pair_cos_min = F(27, 50)
      ctx.lemma_timeout = 250
      q = []
      pre = []
      for b in spec['bodies']:
        for j in b['joints']:
          if j['type'] == 'free':
            q += [z3.Real('q%d' % (len(q) + i)) for i in range(3)] + [F(repr(float(x))) for x in rng.choice(models.QUATS)]
          else:
            v = z3.Real('q%d' % len(q))
            if j['type'] == 'hinge':
              ctx.angle_points[v.decl().name()] = half_point(j['_t'])
            else:
              pre += [v >= -1, v <= 1]
            q.append(v)
      ctx.assume = list(pre)
      qtpl = [None if not core.isc(c_) else float(c_) for c_ in q]
      for i_, c_ in enumerate(q):
        if not core.isc(c_) and str(c_) in ctx.angle_points:
          sh_, ch_ = ctx.angle_points[str(c_)]
          qtpl[i_] = ('hinge', 2.0 * math.atan2(float(sh_), float(ch_)))
      qa = core.obj_array(q)
      pars = {kx: core.consts(vx) for kx, vx in ex.items()}
      def fr_(q, *ps):
        s = sys_.tree_replace({kx: p for kx, p in zip(keys, ps)})
        st = mod.init(s, q, jp.zeros(s.qd_size()))
        o = mod.step(s, st, jp.zeros(s.act_size()))
        if pname == 'generalized':
          return o.qd, o.q - q
        return jp.concatenate([o.xd_i.vel.reshape(-1), o.xd_i.ang.reshape(-1), o.qd]), (o.x_i.pos - st.x_i.pos).reshape(-1)
      try:
        (vel, dpos), cj = core.run(ctx, fr_, qa, *[pars[kx] for kx in keys])
      except (core.SXUnsupported, ZeroDivisionError, ValueError) as e2:
        ck.notes.append('rest clause %s %s not encodable: %s' % (pname, words, e2))
        continue
      ck.traced('%s.pipeline.init+step (rest clause)' % pname, cj)
      ck.log('traced rest %s %s folds=%s' % (pname, words, ctx.fold_stats))
      cells = list(vel.reshape(-1)) + list(dpos.reshape(-1))
      nz = [c for c in cells if not (core.isc(c) and c == 0)]
      frz = Fr.for_ctx(ctx)
      try:
        goal = z3.And([frz.formula(lift(c) == 0) for c in nz]) if nz else True
      except NotImplementedError as e3:
        ck.notes.append('rest clause %s %s: %s' % (pname, words, e3))
        continue
      ck.add(Ob('rest/%s/%s%s' % (pname, 'free+' if free_root else 'world-h+', '.'.join(words)), [frz.formula(s_, _top=False) for s_ in ctx.side] + pre, goal, timeout=20 if (pname == 'positional' and hhh) else 120,
                core=(pname != 'generalized' and not (pname == 'positional' and hhh)), meta={'tag': 'rest', 'pipe': pname, 'xml': xml, 'qtpl': qtpl,
                      # positional 3-dof limits go through atan2 -> clip -> sin/cos of a non-rational angle: "exactly zero" is not an algebraic identity there;
                      # the obligation is extended and backed by the concrete witness search on the real code
                      'extended_witness': ('rest/%s/%s' % (pname, '.'.join(words))) if (pname == 'positional' and hhh) else None,
                      'finding_key': 'rest clause on a link whose stack places a slide after a hinge (upstream limitation, see C08)' if any('hs' in w for w in words) else None}))

  # ---- replay / witness search on the real code
  def replay(ob):
    pipe, tag = ob.meta['pipe'], ob.meta['tag']
    mod = {'spring': sp, 'positional': pp, 'generalized': gp}[pipe]
    if tag == 'rest':
      xml = ob.meta['xml']
      s = mjcf.loads(xml)
      r = np.random.RandomState(0)
      for trial in range(5):
        q = np.array(s.init_q)
        for i, c_ in enumerate(ob.meta['qtpl']):
          if c_ is None:
            q[i] = q[i] + r.uniform(-0.5, 0.5)                      # root position / slide coordinate
          elif isinstance(c_, tuple):
            q[i] = c_[1] + (0 if trial == 0 else r.uniform(-0.2, 0.2))    # hinge: the encoded point, then nearby points inside the (asymmetric) range
          else:
            q[i] = c_
        st = mod.init(s, jp.array(q), jp.zeros(s.qd_size()))
        o = mod.step(s, st, jp.zeros(s.act_size()))
        if float(jp.abs(o.qd).max()) > 1e-9:
          return True, {'xml': xml, 'q': q.tolist(), 'qd_after_one_step': np.asarray(o.qd).tolist()}
      return False, {'why': 'stayed at rest on sampled configurations'}
    xml, kind = replay_models[(pipe, tag)]
    s = mjcf.loads(xml)
    masses = np.asarray(s.link.inertia.mass)
    r = np.random.RandomState(1)
    worst = 0
    for trial in range(12):
      q = np.array(s.init_q)
      nq = len(q)
      off = 0
      for li, t in enumerate(s.link_types):
        if t == 'f':
          q[off:off + 3] += r.uniform(-0.3, 0.3, 3)
          if kind == 'collision' and li == 1:
            q[off:off + 3] = q[0:3] + r.uniform(-1, 1, 3) * 0.12
          v = r.randn(4)
          q[off + 3:off + 7] = v / np.linalg.norm(v)
          off += 7
        else:
          n_ = int(t)
          q[off:off + n_] = r.uniform(-0.8, 0.8, n_)
          off += n_
      qd = r.uniform(-2, 2, s.qd_size())
      st = mod.init(s, jp.array(q), jp.array(qd))
      act = jp.array(r.uniform(-2, 2, s.act_size()))
      p0 = (masses[:, None] * np.asarray(st.xd_i.vel)).sum(0)
      for k in range(3):
        st = mod.step(s, st, act)
      p1 = (masses[:, None] * np.asarray(st.xd_i.vel)).sum(0)
      err = np.abs(p1 - p0 - 3 * masses.sum() * np.asarray(s.gravity) * float(s.opt.timestep)).max()
      worst = max(worst, float(err))
      if err > 1e-8:
        return True, {'xml': xml, 'pipeline': pipe, 'q': q.tolist(), 'qd': qd.tolist(), 'act': np.asarray(act).tolist(), 'momentum_error_after_3_steps': float(err),
                      'note': 'the solver could not prove conservation on the skeleton abstraction; this concrete state violates it on the real code'}
    return False, {'why': 'no violating state found by the witness search (worst error %.2e)' % worst}
  ck.replayers['momentum/'] = replay
  ck.replayers['rest/'] = replay
  ck.discharge()
  ck.cross_check(n=1, timeout=10)


if __name__ == '__main__':
  report.main('C04', run)
