"""C19 — compute_gae equals the defining sums of the generalized advantage estimator, for every trajectory batch.

Encoded: brax.training.agents.ppo.losses.compute_gae (jaxpr, reverse scan unrolled), and the jaxpr of jax.grad of a
linear functional of its outputs ("carries no gradient").
Quantified by the solver: all real rewards, values, bootstrap, lambda, discount AND the masks as arbitrary reals
(both sides are polynomial in them, so every 0/1 mask pattern is a special case).
"""
import itertools

import jax
import jax.numpy as jp
import numpy as np
import z3

from lib import report
from sx import core, validate
from sx.core import lift
from sx.solve import Ob


def reference(T, B, tr, te, r, v, b, lam, gam, mutate=None):
  """defining sums as terms; mutate in {None,'acc_no_trunc','boot_last','term_on_acc_only'} gives deliberately wrong oracles"""
  V = lambda s, j: v[s, j] if s < T else b[j]
  def delta(s, j):
    nxt = V(s + 1, j)
    if mutate == 'boot_last' and s == T - 1:
      nxt = v[s, j]
    return (r[s, j] + gam * (1 - te[s, j]) * nxt - v[s, j]) * (1 - tr[s, j])
  vs = np.empty((T, B), dtype=object)
  adv = np.empty((T, B), dtype=object)
  for j in range(B):
    for t in range(T):
      acc, w = 0, 1
      for l in range(T - t):
        acc = acc + w * delta(t + l, j)
        trf = 1 if mutate == 'acc_no_trunc' else (1 - tr[t + l, j])
        w = w * gam * lam * (1 - te[t + l, j]) * trf
      vs[t, j] = acc + v[t, j]
    for t in range(T):
      nxt = vs[t + 1, j] if t + 1 < T else b[j]
      adv[t, j] = (r[t, j] + gam * (1 - te[t, j]) * nxt - v[t, j]) * (1 - tr[t, j])
  return vs, adv


def run(ck, a):
  from brax.training.agents.ppo import losses
  thorough = ck.tier == 'thorough'
  Ts = range(1, 13) if thorough else range(1, 7)
  Bs = range(1, 5) if thorough else (1, 2, 3)
  ck.bounds = {'T': [min(Ts), max(Ts)], 'B': [min(Bs), max(Bs)],
               'inputs': 'all reals for rewards, values, bootstrap, lambda, discount; masks arbitrary reals (superset of 0/1)',
               'outside': 'float round-off; T > %d' % max(Ts)}
  ck.assumptions += ['reals for floats', 'masks treated as arbitrary reals (stronger than 0/1 and mutual exclusion)']
  f = lambda tr, te, r, v, b, lam, gam: losses.compute_gae(tr, te, r, v, b, lam, gam)
  for T, B in itertools.product(Ts, Bs):
    ctx = core.Ctx()
    tr, te, r, v = (core.reals(n, (T, B)) for n in ('tr', 'te', 'r', 'v'))
    b, lam, gam = core.reals('b', (B,)), core.reals('lam'), core.reals('gam')
    args = (tr, te, r, v, b, lam, gam)
    # PPO passes lambda and discount as PYTHON floats (closed over, not traced): the endpoints of the quantifier's ranges are decided in that calling
    # convention too (T <= 3): value-dependent Python control flow on the hyper-parameters (`x or default`, `if not lam`) only shows there
    if T <= 3 and B <= 2:
      for lamf, gamf in ((0.0, 0.99), (1.0, 1.0), (0.0, 0.0), (1.0, 0.0), (0.95, 0.99)):
        ctxf = core.Ctx()
        try:
          (vsf, advf), cjf = core.run(ctxf, lambda tr_, te_, r_, v_, b_: losses.compute_gae(tr_, te_, r_, v_, b_, lamf, gamf), tr, te, r, v, b)
        except Exception as ex:
          ck.harness_error('compute_gae with Python-float hyper-parameters (lambda=%r, discount=%r): %r' % (lamf, gamf, ex))
          continue
        lq, gq = core.num(lamf), core.num(gamf)
        rvsf, radvf = reference(T, B, tr, te, r, v, b, lq, gq)
        goalf = z3.And([lift(vsf[t, j]) == rvsf[t, j] for t in range(T) for j in range(B)] + [lift(advf[t, j]) == radvf[t, j] for t in range(T) for j in range(B)])
        ck.add(Ob('gae-float-hyperparameters/T=%d/B=%d/lambda=%r/discount=%r' % (T, B, lamf, gamf), ctxf.side, goalf, timeout=60, meta={'T': T, 'B': B, 'lam': lamf, 'gam': gamf}))
    try:
      (vs, adv), cj = core.run(ctx, f, *args)
    except jax.errors.TracerBoolConversionError as ex:
      ck.harness_error('compute_gae cannot be traced with symbolic lambda / discount (value-dependent Python control flow on a hyper-parameter): %s' % str(ex)[:200])
      continue
    ck.traced('ppo.losses.compute_gae', cj)
    if T in (1, 3, max(Ts)) and B in (1, 2):
      ck.validated += validate.validate(ctx, f, args, (vs, adv), n=5, seed=ck.seed + T * 7 + B)
    rvs, radv = reference(T, B, tr, te, r, v, b, lam[()], gam[()])
    goal = z3.And([lift(vs[t, j]) == rvs[t, j] for t in range(T) for j in range(B)] +
                  [lift(adv[t, j]) == radv[t, j] for t in range(T) for j in range(B)])
    ck.add(Ob('gae/T=%d/B=%d' % (T, B), ctx.side, goal, timeout=120, meta={'T': T, 'B': B}))
    if B == min(Bs) and T >= 2:
      for mut in ('acc_no_trunc', 'boot_last'):
        mvs, madv = reference(T, B, tr, te, r, v, b, lam[()], gam[()], mutate=mut)
        g2 = z3.And([lift(vs[t, j]) == mvs[t, j] for t in range(T) for j in range(B)] +
                    [lift(adv[t, j]) == madv[t, j] for t in range(T) for j in range(B)])
        ck.add(Ob('twin/%s/T=%d' % (mut, T), ctx.side + [z3.Not(g2)], None, expect='sat', timeout=60))
    # columns are independent: 2-safety on column 0 when other columns differ
    if B >= 2 and T <= 6:
      ctx2 = core.Ctx()
      tr2, te2, r2, v2 = (core.reals(n + 'x', (T, B)) for n in ('tr', 'te', 'r', 'v'))
      b2 = core.reals('bx', (B,))
      for arr, arr2 in ((tr, tr2), (te, te2), (r, r2), (v, v2)):
        arr2[:, 0] = arr[:, 0]
      b2[0] = b[0]
      (vs2, adv2), _ = core.run(ctx2, f, tr2, te2, r2, v2, b2, lam, gam)
      g = z3.And([lift(vs[t, 0]) == lift(vs2[t, 0]) for t in range(T)] + [lift(adv[t, 0]) == lift(adv2[t, 0]) for t in range(T)])
      ck.add(Ob('column-independence/T=%d/B=%d' % (T, B), [], g, timeout=60))
    # no gradient: grad of a linear functional of both outputs wrt every input is identically zero
    if B <= 2 and T <= 6:
      w1, w2 = core.reals('w1', (T, B)), core.reals('w2', (T, B))
      def lossf(tr, te, r, v, b, lam, gam, w1, w2):
        o1, o2 = losses.compute_gae(tr, te, r, v, b, lam, gam)
        return jp.sum(o1 * w1) + jp.sum(o2 * w2)
      gf = jax.grad(lossf, argnums=(0, 1, 2, 3, 4, 5, 6))
      ctx3 = core.Ctx()
      grads, cj3 = core.run(ctx3, gf, tr, te, r, v, b, lam, gam, w1, w2)
      ck.traced('jax.grad(compute_gae)', cj3)
      cells = [c for gl in grads for c in gl.reshape(-1).tolist()]
      g = z3.And([lift(c) == 0 for c in cells]) if any(not core.isc(c) or c != 0 for c in cells) else True
      ck.add(Ob('no-gradient/T=%d/B=%d' % (T, B), [], g, timeout=60))
  ck.samples.append({'case': 'T=2,B=1', 'obligation': 'vs[0]==delta0+gam*lam*(1-te0)*(1-tr0)*delta1+v0, all symbols real'})

  def replay(ob):
    # evaluate real compute_gae at the model and compare with the definition in float64
    m = ob.model or {}
    T, B = ob.meta.get('T'), ob.meta.get('B')
    if T is None:
      return False, {'why': 'no replay data'}
    def val(n):
      s = m.get(n, '0')
      if '/' in s:
        p, q = s.split('/')
        return int(p) / int(q)
      return float(s)
    arr = lambda n, shp: np.array([[val('%s_%d_%d' % (n, t, j)) for j in range(shp[1])] for t in range(shp[0])])
    tr, te, r, v = (arr(n, (T, B)) for n in ('tr', 'te', 'r', 'v'))
    b = np.array([val('b_%d' % j) for j in range(B)])
    lam, gam = (ob.meta['lam'], ob.meta['gam']) if 'lam' in ob.meta else (val('lam'), val('gam'))
    o1, o2 = losses.compute_gae(jp.array(tr), jp.array(te), jp.array(r), jp.array(v), jp.array(b), lam, gam)
    r1, r2 = reference(T, B, tr, te, r, v, b, lam, gam)
    ok = np.allclose(np.asarray(o1), r1.astype(float), atol=1e-9, rtol=1e-9) and np.allclose(np.asarray(o2), r2.astype(float), atol=1e-9, rtol=1e-9)
    return (not ok), {'inputs': {'truncation': tr.tolist(), 'termination': te.tolist(), 'rewards': r.tolist(), 'values': v.tolist(),
                                'bootstrap': b.tolist(), 'lambda': lam, 'discount': gam},
                      'observed': [np.asarray(o1).tolist(), np.asarray(o2).tolist()],
                      'expected': [r1.astype(float).tolist(), r2.astype(float).tolist()]}
  ck.replayers['gae/'] = replay
  ck.replayers['gae-float-hyperparameters/'] = replay
  ck.replayers['column-independence/'] = lambda ob: (True, {'note': 'two-copy model', 'model': ob.model})
  ck.replayers['no-gradient/'] = lambda ob: (True, {'note': 'non-zero gradient term', 'model': ob.model})
  ck.discharge()
  ck.cross_check(n=2)


if __name__ == '__main__':
  report.main('C19', run)
