"""C02 — generalized-pipeline dynamics (PARTIAL claim: integrator semantics only; mass matrix / bias force vs MuJoCo are NOT decided).

Encoded: generalized.integrator.integrate (semi-implicit Euler with implicit joint damping through the exact linear solve, free-joint quaternion update)
on systems loaded by the real mjcf.loads, with the incoming State fields it reads (q, qd, mass_mx, qf_smooth, qf_constraint) symbolic.
Oracle: MuJoCo's documented Euler step as terms:  (M + dt diag(damping)) (qd' - qd) = dt (qf_smooth + qf_constraint);  q' = q + dt qd' for hinge / slide;
free joint: pos' = pos + dt v', quat' = normalize(quat * (cos(dt|w|/2), w/|w| sin(dt|w|/2))) with w the LOCAL angular velocity (mj_integratePos).
The mass matrix, bias force and passive force terms themselves have no oracle in this deliverable (the first-principles mechanics spec of the plan
was not built): they are outside the claim.
"""
import random
from fractions import Fraction as F

import jax
import jax.numpy as jp
import numpy as np
import z3

from gen import models
from lib import report
from spec import kin
from sx import core, validate
from sx.core import lift
from sx.fr import Fr
from sx.solve import Ob

EXACT_INV = ['<numeric name="matrix_inv_iterations" data="0"/>']


def run(ck, a):
  from brax.generalized import integrator
  from brax.generalized import pipeline as gp
  from brax.io import mjcf
  thorough = ck.tier == 'thorough'
  rng = random.Random(200 + ck.seed)
  ck.bounds = {'decided': 'integrator.integrate: velocity update through the exact solve with implicit damping (nv <= 3 symbolic mass matrix; free body with a '
               'symbolic diagonal-plus-coupling mass matrix), position update for hinge / slide / free joints',
               'not decided': 'mass matrix == MuJoCo, SPD-ness, bias force, passive force, total smooth force (no oracle built); contacts and limits (C06)',
               'models': 'world-attached chains hs / h / sh with damping and armature; a single free body', 'outside': 'float round-off; inv_approximate accuracy'}
  ck.assumptions += ['reals for floats', 'sin/cos of dt|w|/2 as a circle point', 'jax.scipy.linalg.solve interpreted as the exact solution (Gaussian elimination)']
  replay = {}
  cfgs = [('hs', False), ('h', False), ('sh', False), ('hsh', False), (None, True)] if not thorough else [('hs', False), ('h', False), ('sh', False), ('hh', False), ('hsh', False), (None, True)]
  for word, free in cfgs:
    if free:
      spec = {'bodies': [{'name': 'b', 'parent': -1, 'pos': (0, 0, 1), 'quat': (1, 0, 0, 0), 'joints': [{'name': 'jf', 'type': 'free'}],
                          'geoms': [{'type': 'sphere', 'size': (0.1,), 'contype': 0, 'conaffinity': 0}], 'mass': 1.5, 'inertia': (0.2, 0.25, 0.3), 'ipos': (0.05, 0, 0.02)}], 'actuators': []}
    else:
      spec = models.tree_model(rng, [], free_root=False, root_word=word, ortho=False, limits_p=0.0, joint_props=True)
    spec['custom'] = EXACT_INV
    xml = models.to_xml(spec)
    sys_ = mjcf.loads(xml)
    st0 = gp.init(sys_, sys_.init_q, jp.zeros(sys_.qd_size()))
    nq, nv = sys_.q_size(), sys_.qd_size()
    dt = F(repr(float(sys_.opt.timestep)))
    damp = [F(repr(float(x))) for x in np.asarray(sys_.dof.damping)]
    ctx = core.Ctx()
    if free:
      q = core.obj_array([z3.Real('q%d' % i) for i in range(3)] + [F(3, 5), 0, F(4, 5), 0])
      # the model's own mass matrix at this orientation (exact rationals of the float64 values; independent of the symbolic position)
      stq = gp.init(sys_, jp.array([0., 0, 1, 0.6, 0, 0.8, 0]), jp.zeros(6))
      Mn = np.asarray(stq.mass_mx)
      Mx = np.empty((nv, nv), dtype=object)
      for i in range(nv):
        for j in range(nv):
          Mx[i, j] = core.num(float(Mn[i, j]))
      pre = []
    else:
      q = core.reals('q', (nq,))
      Ms = core.reals('M', (nv, nv))
      Mx = np.empty((nv, nv), dtype=object)
      for i in range(nv):
        for j in range(nv):
          Mx[i, j] = Ms[min(i, j), max(i, j)]
      pre = []
    qd = core.reals('v', (nv,))
    qfs, qfc = core.reals('fs', (nv,)), core.reals('fc', (nv,))
    def f(q, qd, M, qfs, qfc):
      st = st0.replace(q=q, qd=qd, mass_mx=M, qf_smooth=qfs, qf_constraint=qfc)
      o = integrator.integrate(sys_, st)
      return o.q, o.qd
    try:
      (q2, qd2), cj = core.run(ctx, f, q, qd, Mx, qfs, qfc)
    except (core.SXUnsupported, ZeroDivisionError, ValueError) as e_:
      ck.harness_error('integrate %s: %r' % (word or 'free', e_))
      continue
    ck.traced('generalized.integrator.integrate', cj)
    ck.stubs |= ctx.stubs
    tag = 'free' if free else 'world-' + word
    replay[tag] = xml
    fr = Fr.for_ctx(ctx)
    side = [fr.formula(s_, _top=False) for s_ in ctx.side] + pre + [f_ != 0 for f_ in []]
    # velocity update, multiplied back through the matrix (no inverse in the query)
    goals = []
    for i in range(nv):
      lhs = 0
      for j in range(nv):
        mij = core.s_add(Mx[i, j], core.s_mul(dt, damp[i]) if i == j else 0)
        lhs = core.s_add(lhs, core.s_mul(mij, core.s_sub(qd2[j], qd[j])))
      goals.append(fr.formula(lift(lhs) == lift(core.s_mul(dt, core.s_add(qfs[i], qfc[i])))))
    defs = [f_ != 0 for f_ in fr.factors()]
    ck.add(Ob('velocity-update/%s: (M + dt D)(qd\' - qd) == dt (qf_smooth + qf_constraint)' % tag, side + defs, z3.And(goals), timeout=120, meta={'tag': tag}))
    ck.add(Ob('twin/reach/' + tag, side + defs, None, expect='sat', timeout=60))
    # position update
    fr2 = Fr.for_ctx(ctx)
    if free:
      g = [fr2.formula(lift(q2[i]) == lift(core.s_add(q[i], core.s_mul(dt, qd2[i])))) for i in range(3)]
      # quaternion: proportional to quat * (c, axis s) with axis = w / (|w| + 1e-8), angle = dt (|w| + 1e-8); compare up to the final normalisation
      w_ = [qd2[3], qd2[4], qd2[5]]
      trig = list(ctx.trig.values())
      if len(trig) != 1:
        ck.add(Ob('position-update/%s: exactly one rotation angle' % tag, [], z3.BoolVal(False), timeout=5, meta={'tag': tag}))
      else:
        s_, c_, arg = trig[0]
        # the axis cells: w / ang_norm where ang_norm = |w| + 1e-8 appears as denominator in the traced terms; build reference with the code's own norm term
        norms = [yv for (yv, ar) in ctx.sqrts.values()]
        rot = [q[3], q[4], q[5], q[6]]
        # find the norm variable of w: sqrt of w.w
        ang_norm = None
        for (yv, ar) in ctx.sqrts.values():
          ang_norm = yv if ang_norm is None else ang_norm
        # reference up to scale: r = rot * (c*(n), w s) with n = ang_norm + 1e-8 (multiplying the unit-axis form by n)
        n_ = None
        ref_ok = True
        try:
          # use the identification on the ARGUMENT of sin/cos: arg == dt * (|w| + 1e-8) / 2
          pass
        except Exception:
          ref_ok = False
        # candidate denominators recorded by SX: pick the one used for the axis (first division by a sqrt-based term)
        cands = [d_ for (k_, d_) in ctx.defined]
        found = False
        for dnm in cands:
          qrot = [c_] + [core.s_mul(core.s_div(wk, dnm), s_) for wk in w_]
          r = kin.qmul(rot, qrot)
          # q2[3:7] == r / |r|  <=>  q2 x r == 0 (parallel) and q2 . r > 0, |q2| = 1
          par = []
          for i_ in range(4):
            for j_ in range(i_ + 1, 4):
              par.append(fr2.formula(lift(core.s_mul(q2[3 + i_], r[j_])) == lift(core.s_mul(q2[3 + j_], r[i_]))))
          g2 = g + par
          ob = Ob('position-update/%s: pos\' = pos + dt v\', quat\' parallel to quat * dq(local angular velocity)' % tag, side + [f_ != 0 for f_ in fr2.factors()], z3.And(g2), timeout=120,
                  meta={'tag': tag})
          ck.add(ob)
          # mutation twin: world-frame composition dq * quat must be refutable
          rw = kin.qmul(qrot, rot)
          parw = []
          for i_ in range(4):
            for j_ in range(i_ + 1, 4):
              parw.append(fr2.formula(lift(core.s_mul(q2[3 + i_], rw[j_])) == lift(core.s_mul(q2[3 + j_], rw[i_]))))
          ck.add(Ob('twin/world-frame-composition/' + tag, side + [f_ != 0 for f_ in fr2.factors()] + [z3.Not(z3.And(parw))], None, expect='sat', timeout=60))
          found = True
          break
        if not found:
          ck.add(Ob('position-update/%s: axis denominator found' % tag, [], z3.BoolVal(False), timeout=5, meta={'tag': tag}))
    else:
      g = [fr2.formula(lift(q2[i]) == lift(core.s_add(q[i], core.s_mul(dt, qd2[i])))) for i in range(nq)]
      ck.add(Ob('position-update/%s: q\' == q + dt qd\'' % tag, side + [f_ != 0 for f_ in fr2.factors()], z3.And(g), timeout=120, meta={'tag': tag}))
    if word == 'hs':
      ck.samples.append({'model': tag, 'xml': xml, 'qd_out_0': str(qd2[0])[:300]})
      try:
        ck.validated += validate.validate(ctx, f, (q, qd, Mx, qfs, qfc), (q2, qd2), n=3, seed=ck.seed, sampler=lambda nm, t, r_: (2.0 + r_.random() if nm.startswith('M_') and nm[2] == nm[4] else (0.1 * r_.random() if nm.startswith('M_') else None)))
      except validate.ValidationError as e_:
        ck.harness_error('translator validation: %s' % e_)

  # ---------------- dynamics terms vs the first-principles mechanics reference (spec/mech.py, validated against real mujoco each run)
  from brax import actuator, kinematics
  from brax.generalized import dynamics, mass
  from brax.generalized.base import State as GState
  from checks.c01 import TS, half_point
  from spec import mech
  dyn_models = []
  for words, free in ([(['s'], True), (['hs'], False), (['h', 's'], False), (['sh'], True), ([], True), (['hsh'], False)] if not thorough else
                      [(['s'], True), (['hs'], False), (['h', 's'], False), (['sh'], True), ([], True), (['hsh'], False), (['hh'], True), (['s', 'h'], True), (['shh'], False), (['h', 'h', 's'], False)]):
    if free:
      spec = models.tree_model(rng, words, free_root=True, ortho=False, limits_p=0.0, actuators=min(1, len(words)), joint_props=True)
    else:
      spec = models.tree_model(rng, words[1:], free_root=False, root_word=words[0], ortho=False, limits_p=0.0, actuators=1, joint_props=True)
    dyn_models.append((spec, words, free))
  # several kinematic trees in one model (a world-attached tree before the last tree)
  two = models.merge_specs([models.tree_model(rng, ['h'], free_root=False, root_word='h', ortho=False, limits_p=0.0, joint_props=True),
                            models.tree_model(rng, [], free_root=False, root_word='hs', ortho=False, limits_p=0.0, joint_props=True)])
  dyn_models.append((two, ['two-trees:h.h+hs'], False))
  for spec, words, free in dyn_models:
    spec['custom'] = EXACT_INV
    xml = models.to_xml(spec)
    sys_ = mjcf.loads(xml)
    ck.oracle_validated += mech.validate(spec, xml, rng, n=3)
    ex = models.exact_params(spec)
    keys = sorted(ex)
    ctx = core.Ctx(fold=True)
    ctx.pair_cos_min = F(27, 50)
    ctx.lemma_timeout = 300
    q, qd = [], []
    for b in spec['bodies']:
      for j in b['joints']:
        if j['type'] == 'free':
          q += [z3.Real('q%d' % (len(q) + i)) for i in range(3)] + [F(repr(float(x))) for x in rng.choice(models.QUATS)]
          qd += [z3.Real('v%d' % (len(qd) + i)) for i in range(6)]
        else:
          v = z3.Real('q%d' % len(q))
          if j['type'] == 'hinge':
            ctx.angle_points[v.decl().name()] = half_point(rng.choice(TS))
          else:
            ctx.assume += [v >= -2, v <= 2]
          q.append(v)
          qd.append(z3.Real('v%d' % len(qd)))
    ctrl = core.reals('u', (sys_.act_size(),))
    pars = [core.consts(ex[kx]) for kx in keys]
    def fd(q, qd, ctrl, *ps):
      s_ = sys_.tree_replace({kx: p for kx, p in zip(keys, ps)})
      x, xd = kinematics.forward(s_, q, qd)
      st = GState.init(q, qd, x, xd)
      st = dynamics.transform_com(s_, st)
      M = mass.matrix(s_, st)
      st = st.replace(mass_mx=M)
      bias = dynamics.inverse(s_, st)
      passive = dynamics._passive(s_, st)
      tau = actuator.to_tau(s_, ctrl, q, qd)
      qfs = dynamics.forward(s_, st, tau)
      return M, bias, passive, qfs, tau
    tag = 'dyn/%s%s' % ('free+' if free else 'world-', '.'.join(words) or 'single')
    try:
      (Mb, bb, pb, qfs, tau), cj = core.run(ctx, fd, core.obj_array(q), core.obj_array(qd), ctrl, *pars)
    except (core.SXUnsupported, ZeroDivisionError, ValueError, AssertionError) as e_:
      ck.harness_error('%s: %r' % (tag, e_))
      continue
    ck.traced('generalized dynamics.transform_com + mass.matrix + dynamics.inverse/_passive/forward', cj)
    replay[tag] = xml
    Mr, cr, pr = mech.dynamics(spec, q, qd, lambda c_: ctx.sincos(core.s_div(c_, 2)), np.asarray(sys_.gravity))
    fr = Fr.for_ctx(ctx)
    side = [fr.formula(s_, _top=False) for s_ in ctx.side] + list(ctx.assume)
    nv = len(qd)
    def eq_all(pairs):
      es = [core.s_eq(x, y) for x, y in pairs]
      es = [e for e in es if not (isinstance(e, bool) and e)]
      if any(isinstance(e, bool) for e in es):
        return z3.BoolVal(False)
      return z3.And([fr.formula(e) for e in es]) if es else True
    meta = {'tag': tag}
    ck.add(Ob('mass-matrix == reference/%s' % tag, side, eq_all([(Mb[i, j], Mr[i][j]) for i in range(nv) for j in range(nv)]), timeout=120, meta=meta))
    ck.add(Ob('mass-matrix symmetric/%s' % tag, side, eq_all([(Mb[i, j], Mb[j, i]) for i in range(nv) for j in range(i)]), timeout=60, meta=meta))
    ck.add(Ob('bias-force == reference/%s' % tag, side, eq_all([(bb[i], cr[i]) for i in range(nv)]), timeout=120, meta=meta))
    ck.add(Ob('passive-force == reference/%s' % tag, side, eq_all([(pb[i], pr[i]) for i in range(nv)]), timeout=60, meta=meta))
    ck.add(Ob('smooth-force == tau + passive - bias/%s' % tag, side, eq_all([(qfs[i], core.s_sub(core.s_add(tau[i], pr[i]), cr[i])) for i in range(nv)]), timeout=120, meta=meta))
    # positive definite: qd^T M qd > 0 for qd != 0 (M is concrete-coefficient in Tier B up to the symbolic slide / root coordinates)
    quad = 0
    for i in range(nv):
      for j in range(nv):
        quad = core.s_add(quad, core.s_mul(qd[i], core.s_mul(Mb[i, j], qd[j])))
    nz = z3.Or([v != 0 for v in qd])
    ck.add(Ob('mass-matrix positive definite/%s' % tag, side + [nz], fr.formula(lift(quad) > 0), timeout=120, core=(nv <= 3), meta=meta))
    if words == ['s']:
      ck.add(Ob('twin/reach/' + tag, side, None, expect='sat', timeout=60))
      ck.add(Ob('twin/bias-without-gravity/' + tag, side + [z3.Not(eq_all([(bb[i], core.s_sub(cr[i], 1)) for i in range(nv)]))], None, expect='sat', timeout=60))

  # ---------------- the state returned by step carries the mass matrix of the NEW configuration (histories of steps stay consistent)
  for words in ([['h', 'h']] if not thorough else [['h', 'h'], ['h', 's']]):
    spec = models.tree_model(rng, words[1:], free_root=False, root_word=words[0], ortho=False, limits_p=0.0, actuators=0, joint_props=False)
    spec['custom'] = EXACT_INV
    xml = models.to_xml(spec)
    sys_ = mjcf.loads(xml)
    ex = models.exact_params(spec)
    keys = sorted(ex)
    ctx = core.Ctx()
    q = [z3.Real('q%d' % i) for i in range(sys_.q_size())]
    qd = [z3.Real('v%d' % i) for i in range(sys_.qd_size())]
    for v in q:
      ctx.angle_points[v.decl().name()] = half_point(rng.choice([t for t in TS if t != 0]))
    pars = [core.consts(ex[kx]) for kx in keys]
    def fs(q, qd, *ps):
      s_ = sys_.tree_replace({kx: p for kx, p in zip(keys, ps)})
      o = gp.step(s_, gp.init(s_, q, qd), jp.zeros(s_.act_size()))
      fresh = gp.init(s_, o.q, o.qd)        # the same real code evaluated on the new configuration
      return o.mass_mx, fresh.mass_mx
    tag = 'post-step/world-' + '.'.join(words)
    try:
      (M2, Mf), cj = core.run(ctx, fs, core.obj_array(q), core.obj_array(qd), *pars)
    except (core.SXUnsupported, ZeroDivisionError, ValueError, AssertionError) as e_:
      ck.harness_error('%s: %r' % (tag, e_))
      continue
    ck.traced('generalized.pipeline.init+step (post-step mass matrix)', cj)
    replay[tag] = xml
    from sx.abstract import Abstractor
    ab = Abstractor(keep=30)
    nv = len(qd)
    es = [core.s_eq(M2[i, j], Mf[i, j]) for i in range(nv) for j in range(nv)]
    es = [e for e in es if not (isinstance(e, bool) and e)]
    goal = z3.BoolVal(False) if any(isinstance(e, bool) for e in es) else (z3.And([ab.formula(e) for e in es]) if es else True)
    ck.add(Ob('mass-matrix of the returned state belongs to the new configuration/%s (%d cells not syntactically identical)' % (tag, len(es)), [], goal, timeout=60,
              meta={'tag': tag, 'poststep': True}))

  def rep_dyn(ob):
    import mujoco
    tag = ob.meta['tag']
    xml = replay[tag]
    s_ = mjcf.loads(xml)
    mj = mujoco.MjModel.from_xml_string(xml)
    d = mujoco.MjData(mj)
    r = np.random.RandomState(2)
    if ob.meta.get('poststep'):
      for _ in range(3):
        qn, vn = r.uniform(-1, 1, s_.q_size()), r.uniform(-2, 2, s_.qd_size())
        o = gp.step(s_, gp.init(s_, jp.array(qn), jp.array(vn)), jp.zeros(s_.act_size()))
        fresh = gp.init(s_, o.q, o.qd)
        if not np.allclose(np.asarray(o.mass_mx), np.asarray(fresh.mass_mx), atol=1e-9):
          return True, {'xml': xml, 'q': qn.tolist(), 'qd': vn.tolist(), 'mass_mx_in_returned_state': np.asarray(o.mass_mx).tolist(), 'mass_mx_of_new_configuration': np.asarray(fresh.mass_mx).tolist()}
      return False, {'why': 'returned mass matrix matches the new configuration on sampled states'}
    for _ in range(4):
      qn = np.array(s_.init_q)
      off = 0
      for t_ in s_.link_types:
        if t_ == 'f':
          qn[off:off + 3] = r.uniform(-0.5, 0.5, 3)
          v = r.randn(4)
          qn[off + 3:off + 7] = v / np.linalg.norm(v)
          off += 7
        else:
          qn[off:off + int(t_)] = r.uniform(-1, 1, int(t_))
          off += int(t_)
      vn = r.uniform(-1, 1, s_.qd_size())
      d.qpos[:], d.qvel[:] = qn, vn
      mujoco.mj_forward(mj, d)
      x, xd = kinematics.forward(s_, jp.array(qn), jp.array(vn))
      st = dynamics.transform_com(s_, GState.init(jp.array(qn), jp.array(vn), x, xd))
      M = np.asarray(mass.matrix(s_, st))
      bias = np.asarray(dynamics.inverse(s_, st.replace(mass_mx=jp.array(M))))
      Mf = np.zeros((mj.nv, mj.nv))
      for k in range(mj.nv):
        e = np.zeros(mj.nv)
        e[k] = 1
        res = np.zeros(mj.nv)
        mujoco.mj_mulM(mj, d, res, e)
        Mf[:, k] = res
      if not np.allclose(M, Mf, atol=1e-7) or not np.allclose(bias, d.qfrc_bias, atol=1e-7):
        return True, {'xml': xml, 'q': qn.tolist(), 'qd': vn.tolist(), 'brax_mass_matrix': M.tolist(), 'mujoco_mass_matrix': Mf.tolist(), 'brax_bias': bias.tolist(),
                      'mujoco_qfrc_bias': d.qfrc_bias.tolist()}
    return False, {'why': 'mass matrix and bias force match mujoco on sampled states'}

  def rep(ob):
    tag = ob.meta['tag']
    xml = replay[tag]
    s = mjcf.loads(xml)
    import mujoco
    mj = mujoco.MjModel.from_xml_string(xml)
    mj.opt.integrator = 0
    r = np.random.RandomState(1)
    for _ in range(5):
      q = np.array(s.init_q)
      if tag == 'free':
        v = r.randn(4)
        q[3:7] = v / np.linalg.norm(v)
      else:
        q[:] = r.uniform(-0.5, 0.5, len(q))
      qd = r.uniform(-1, 1, s.qd_size())
      st = gp.step(s, gp.init(s, jp.array(q), jp.array(qd)), jp.zeros(s.act_size()))
      d = mujoco.MjData(mj)
      d.qpos[:], d.qvel[:] = q, qd
      mujoco.mj_step(mj, d)
      if tag == 'free':
        # the free-body comparison is exact up to O(dt^2) inertia coupling only through M; compare orientation update direction
        qa, qb = np.asarray(st.q)[3:7], d.qpos[3:7]
        if min(np.abs(qa - qb).max(), np.abs(qa + qb).max()) > 1e-5:
          return True, {'xml': xml, 'q': q.tolist(), 'qd': qd.tolist(), 'brax_q': np.asarray(st.q).tolist(), 'mujoco_qpos': d.qpos.tolist()}
    return False, {'why': 'matches mujoco on sampled states'}
  ck.replayers['velocity-update'] = lambda ob: (True, {'model': ob.model, 'note': 'integrator velocity update violates the implicit Euler equation (solver model)'})
  ck.replayers['position-update'] = rep
  for p_ in ('mass-matrix', 'bias-force', 'passive-force', 'smooth-force'):
    ck.replayers[p_] = rep_dyn
  ck.discharge()
  ck.cross_check(n=1, timeout=10)


if __name__ == '__main__':
  report.main('C02', run)
