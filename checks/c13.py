"""C13 — fusing jointless bodies on load preserves the model's geometry.

Encoded (FX): the real mjcf.fuse_bodies (= _fuse_bodies, _offset, _transform_do, math.rotate_np, math.quat_mul_np) is executed on MJCF text
whose numeric attributes are SYMBOLIC (reserved float tokens carried through '%f' / np.fromstring), one run per feasible path.
Oracle: MJCF frame composition (world pose of every named geom / site / jointed body; end points of fromto geoms) computed on the original
and on the fused document; validated against real MuJoCo on concrete instances every run.  Obligation per path: all poses equal, for
ALL positions and ALL unit quaternions (rational parametrisation): polynomial identities.
"""
import itertools
import random
import zlib
from fractions import Fraction as F
from xml.etree import ElementTree

import numpy as np
import z3

from fx import core as fx
from lib import report
from sx.fr import Fr
from sx.solve import Ob

MODES = ('pos', 'quat', 'both', 'neither')


class Doc:
  """builds one MJCF skeleton with symbolic attribute values; records them for instantiation"""

  def __init__(self, tier_b_quats=False, rng=None):
    self.vars = {}    # name -> z3 var
    self.n = 0
    self.tier_b = tier_b_quats
    self.rng = rng
    self.concrete = {}

  def real(self, nm):
    v = z3.Real(nm)
    self.vars[nm] = v
    return fx.Sym(v)

  def pos(self, nm):
    return [self.real('%s_p%d' % (nm, i)) for i in range(3)]

  QB = [(1, 0, 0, 0), (F(1, 2), F(1, 2), F(1, 2), F(1, 2)), (F(3, 5), 0, F(4, 5), 0), (F(4, 5), 0, 0, F(3, 5)), (0, F(3, 5), 0, F(4, 5)), (F(7, 25), F(24, 25), 0, 0),
        (F(1, 10), F(7, 10), F(7, 10), F(1, 10)), (F(1, 5), F(2, 5), F(2, 5), F(4, 5)), (F(9, 25), F(12, 25), F(4, 5), 0), (F(2, 3), F(-1, 3), 0, F(2, 3)), (F(2, 7), F(3, 7), F(6, 7), 0)]

  def quat(self, nm):
    if self.tier_b or not nm.startswith('J'):
      q = self.rng.choice(self.QB[1:])
      sg = self.rng.choice([1, -1])
      return [fx.Sym(z3.RealVal(str(sg * x))) for x in q]
    a, b, c = (self.real('%s_r%d' % (nm, i)) for i in range(3))
    n2 = a * a + b * b + c * c
    den = 1 + n2
    return [(1 - n2) / den, 2 * a / den, 2 * b / den, 2 * c / den]

  def txt(self, vals):
    return ' '.join(fx.TOKENS.text(v) if isinstance(v, fx.Sym) else repr(float(v)) for v in vals)


def build(levels, place, doc):
  """levels: tuple of modes for the chain of nested jointless bodies; place: 'world' | 'jointed'."""
  root = ElementTree.Element('mujoco')
  wb = ElementTree.SubElement(root, 'worldbody')
  ElementTree.SubElement(wb, 'geom', name='floor', type='plane', size='1 1 1', pos='0 0 -5')
  if place == 'jointed':
    host = ElementTree.SubElement(wb, 'body', name='host', pos=doc.txt(doc.pos('host')), quat=doc.txt(doc.quat('host')))
    ElementTree.SubElement(host, 'joint', name='host_j', type='hinge', axis='0 0 1')
    ElementTree.SubElement(host, 'geom', name='host_g', type='sphere', size='0.1')
    parent = host
  else:
    parent = wb
  for lv, mode in enumerate(levels):
    at = {'name': 'J%d' % lv}
    if mode in ('pos', 'both'):
      at['pos'] = doc.txt(doc.pos('J%d' % lv))
    if mode in ('quat', 'both'):
      at['quat'] = doc.txt(doc.quat('J%d' % lv))
    J = ElementTree.SubElement(parent, 'body', **at)
    ElementTree.SubElement(J, 'geom', name='g%d' % lv, type='capsule', size='0.05 0.1', pos=doc.txt(doc.pos('g%d' % lv)), quat=doc.txt(doc.quat('g%d' % lv)))
    ElementTree.SubElement(J, 'geom', name='gf%d' % lv, type='capsule', size='0.04', fromto=doc.txt(doc.pos('gf%da' % lv) + doc.pos('gf%db' % lv)))
    ElementTree.SubElement(J, 'site', name='s%d' % lv, pos=doc.txt(doc.pos('s%d' % lv)), quat=doc.txt(doc.quat('s%d' % lv)))
    jb = ElementTree.SubElement(J, 'body', name='jb%d' % lv, pos=doc.txt(doc.pos('jb%d' % lv)), quat=doc.txt(doc.quat('jb%d' % lv)))
    ElementTree.SubElement(jb, 'joint', name='jb%d_j' % lv, type='hinge', axis='0 1 0')
    ElementTree.SubElement(jb, 'geom', name='jbg%d' % lv, type='sphere', size='0.1', pos=doc.txt(doc.pos('jbg%d' % lv)))
    parent = J
  return root


def qmul(u, v):
  return [u[0] * v[0] - u[1] * v[1] - u[2] * v[2] - u[3] * v[3], u[0] * v[1] + u[1] * v[0] + u[2] * v[3] - u[3] * v[2],
          u[0] * v[2] - u[1] * v[3] + u[2] * v[0] + u[3] * v[1], u[0] * v[3] + u[1] * v[2] - u[2] * v[1] + u[3] * v[0]]


def qrot(v, q):
  w, x, y, z = q
  R = [[1 - 2 * (y * y + z * z), 2 * (x * y - w * z), 2 * (x * z + w * y)], [2 * (x * y + w * z), 1 - 2 * (x * x + z * z), 2 * (y * z - w * x)],
       [2 * (x * z - w * y), 2 * (y * z + w * x), 1 - 2 * (x * x + y * y)]]
  return [R[i][0] * v[0] + R[i][1] * v[1] + R[i][2] * v[2] for i in range(3)]


def poses(root, parse):
  """MJCF frame composition (unit quaternions): name -> ('frame', pos, quat) | ('fromto', a, b)"""
  out = {}

  def walk(elem, P, Q):
    for ch in elem:
      if ch.tag == 'body':
        p = parse(ch.attrib.get('pos', '0 0 0'))
        q = parse(ch.attrib.get('quat', '1 0 0 0'))
        P2 = [a + b for a, b in zip(P, qrot(p, Q))]
        Q2 = qmul(Q, q)
        if ch.find('joint') is not None or ch.find('freejoint') is not None:
          out['body:' + ch.attrib['name']] = ('frame', P2, Q2)
        walk(ch, P2, Q2)
      elif ch.tag in ('geom', 'site') and ch.attrib.get('name') and ch.attrib.get('name') != 'floor':
        if ch.attrib.get('fromto'):
          ft = parse(ch.attrib['fromto'])
          a = [x + y for x, y in zip(P, qrot(list(ft[0:3]), Q))]
          b = [x + y for x, y in zip(P, qrot(list(ft[3:6]), Q))]
          out[ch.tag + ':' + ch.attrib['name']] = ('fromto', a, b)
        else:
          p = parse(ch.attrib.get('pos', '0 0 0'))
          q = parse(ch.attrib.get('quat', '1 0 0 0'))
          out[ch.tag + ':' + ch.attrib['name']] = ('frame', [x + y for x, y in zip(P, qrot(p, Q))], qmul(Q, q))
  wb = root.find('worldbody')
  walk(wb, [0, 0, 0], [1, 0, 0, 0])
  return out


def concretise(xml_text, env):
  """replace tokens by numbers (env: z3 var name -> float) for MuJoCo"""
  root = ElementTree.fromstring(xml_text)
  for el in root.iter():
    for k, v in list(el.attrib.items()):
      if k in ('pos', 'quat', 'fromto'):
        arr = fx.TOKENS.fromstring(v)
        vals = []
        for x in arr:
          if isinstance(x, fx.Sym):
            vals.append(float(eval_term(x.e, env)))
          else:
            vals.append(float(x))
        el.attrib[k] = ' '.join(repr(t) for t in vals)
  return ElementTree.tostring(root, encoding='unicode')


def eval_term(t, env):
  from sx import core
  ctx = core.Ctx()
  return core.evalf(ctx, t, env)


def mj_poses(xml):
  import mujoco
  m = mujoco.MjModel.from_xml_string(xml)
  d = mujoco.MjData(m)
  mujoco.mj_forward(m, d)
  out = {}
  for i in range(m.ngeom):
    nm = mujoco.mj_id2name(m, mujoco.mjtObj.mjOBJ_GEOM, i)
    if nm and nm != 'floor':
      out['geom:' + nm] = (d.geom_xpos[i].copy(), d.geom_xmat[i].reshape(3, 3).copy(), float(m.geom_size[i, 1]))
  for i in range(m.nsite):
    out['site:' + mujoco.mj_id2name(m, mujoco.mjtObj.mjOBJ_SITE, i)] = (d.site_xpos[i].copy(), d.site_xmat[i].reshape(3, 3).copy(), 0.0)
  for i in range(1, m.nbody):
    out['body:' + mujoco.mj_id2name(m, mujoco.mjtObj.mjOBJ_BODY, i)] = (d.xpos[i].copy(), d.xmat[i].reshape(3, 3).copy(), 0.0)
  masses = {mujoco.mj_id2name(m, mujoco.mjtObj.mjOBJ_BODY, i): (float(m.body_mass[i]), m.body_inertia[i].copy()) for i in range(1, m.nbody)}
  return out, masses


def qmat(q):
  w, x, y, z = q
  return np.array([[1 - 2 * (y * y + z * z), 2 * (x * y - w * z), 2 * (x * z + w * y)], [2 * (x * y + w * z), 1 - 2 * (x * x + z * z), 2 * (y * z - w * x)],
                   [2 * (x * z - w * y), 2 * (y * z + w * x), 1 - 2 * (x * x + y * y)]])


def compare_with_mujoco(ps_num, mj):
  """numeric oracle poses vs MuJoCo poses of the same document"""
  for nm, val in ps_num.items():
    if nm not in mj:
      raise AssertionError('element %s missing in MuJoCo model' % nm)
    xpos, xmat, half = mj[nm]
    if val[0] == 'frame':
      if not (np.allclose(val[1], xpos, atol=1e-9) and np.allclose(qmat(val[2]), xmat, atol=1e-9)):
        raise AssertionError('oracle pose of %s differs from MuJoCo' % nm)
    else:
      a, b = np.array(val[1]), np.array(val[2])
      if not (np.allclose((a + b) / 2, xpos, atol=1e-9) and np.allclose(np.cross(xmat[:, 2], (b - a)), 0, atol=1e-9) and abs(np.linalg.norm(b - a) / 2 - half) < 1e-9):
        raise AssertionError('oracle fromto of %s differs from MuJoCo' % nm)


def run(ck, a):
  from brax.io import mjcf
  thorough = ck.tier == 'thorough'
  rng = random.Random(ck.seed)
  skeletons = []
  for place in ('world', 'jointed'):
    for depth in ((1, 2, 3) if thorough else (1, 2)):
      for modes in itertools.product(MODES, repeat=depth):
        # Tier A (all unit quaternions of the fused bodies symbolic) for one level; Tier B (exact rational unit quaternions, positions symbolic) deeper
        if depth == 1:
          skeletons.append((place, modes, 'A', 0))
        for inst in range(2 if (thorough or depth == 1) else 1):
          skeletons.append((place, modes, 'B', inst))
  ck.bounds = {'skeletons': len(skeletons), 'nesting_depth': 3 if thorough else 2, 'places': ['under world', 'under a jointed body', 'nested'],
               'attributes': 'pos only / quat only / both / neither per level', 'children': 'geom pos+quat, geom fromto, site, jointed body (each level)',
               'values': 'all real positions; unit quaternions of the fused bodies: all (rational parametrisation, Tier A) for one level, exact rational instances (Tier B) for deeper nesting; element quaternions Tier B', 'outside': "the '%f' 6-decimal rounding of rewritten attributes (abstracted); "
               'euler/axisangle orientation attributes; default classes; masses/inertias (checked concretely through MuJoCo only)'}
  ck.assumptions += ['MJCF frame composition oracle, validated against real mujoco on concrete instances every run', "'%f' formatting treated as exact"]
  proxy = fx.NumpyProxy()
  saved = mjcf.np
  import time
  fx_budget = 420 if not thorough else 7200      # wall-clock budget of the whole path-exploration phase (a fork explosion ends as exit 3, or as exit 1 if an explored path already violates)
  fx_deadline = time.time() + fx_budget
  replay_docs = {}
  npaths = 0
  try:
    mjcf.np = proxy
    for place, modes, tier, inst in skeletons:
      tag = '%s/%s/tier%s%d' % (place, '-'.join(modes), tier, inst)
      doc = Doc(tier_b_quats=(tier == 'B'), rng=random.Random(zlib.crc32(repr((place, modes, inst)).encode()) % 100000 + ck.seed))
      root = build(modes, place, doc)
      text = ElementTree.tostring(root, encoding='unicode')
      replay_docs[tag] = (text, dict(doc.vars))
      orig = poses(ElementTree.fromstring(text), lambda s: list(fx.TOKENS.fromstring(s)))
      # quick tier: positions of the fused bodies are assumed to have a non-zero first component, which prunes the 4-way fork of
      # `(cpos != 0).any()` per level to one path (zero positions are covered by the 'quat' / 'neither' modes); thorough explores all paths
      prune = [] if thorough else [v != 0 for nm, v in doc.vars.items() if nm.startswith('J') and nm.endswith('_p0')]
      left_s = fx_deadline - time.time()
      if left_s < 10:
        ck.harness_error('fuse %s: not explored (the FX phase used up its %d s budget on earlier documents)' % (tag, fx_budget))
        continue
      drv = fx.Driver(pre=prune, budget_s=min(120.0 if not thorough else 1200.0, left_s), timeout_ms=3000)
      def guarded_paths():
        try:
          yield from drv.paths(lambda: mjcf.fuse_bodies(text))
        except RuntimeError as ex_:
          ck.harness_error('fuse %s: %s (path exploration not exhaustive for this document)' % (tag, ex_))
      for pi, (pc, (kind, val)) in enumerate(guarded_paths()):
        npaths += 1
        if kind != 'ok':
          ck.add(Ob('fuse/%s/path%d raised %r' % (tag, pi, val), pc, z3.BoolVal(False), timeout=10, meta={'tag': tag}))
          continue
        froot = ElementTree.fromstring(val)
        # no jointless body may survive
        left = [b.attrib.get('name') for b in froot.iter('body') if b.find('joint') is None and b.find('freejoint') is None]
        fused = poses(froot, lambda s: list(fx.TOKENS.fromstring(s)))
        fr = Fr()
        eqs = []
        for nm, v in orig.items():
          if nm not in fused or fused[nm][0] != v[0]:
            eqs.append(z3.BoolVal(False))
            continue
          for x, y in zip(list(v[1]) + list(v[2]), list(fused[nm][1]) + list(fused[nm][2])):
            xe, ye = fx.lift(x), fx.lift(y)
            eqs.append(fr.eq(xe, ye))
        if left:
          eqs.append(z3.BoolVal(False))
        ob = Ob('fuse-preserves-poses/%s/path%d' % (tag, pi), prune + [fr.formula(c) for c in pc], z3.And(eqs), timeout=120, meta={'tag': tag, 'finding_key': 'fuse/' + '-'.join(modes)})
        ck.add(ob)
        if pi == 0 and modes == ('both',) and tier == 'A':
          # vacuity / blind-oracle twins: the path is reachable; a deliberately wrong expectation (geom g0 where site s0 is) must be refutable
          ck.add(Ob('twin/reach/%s' % tag, prune + [fr.formula(c) for c in pc], None, expect='sat', timeout=30))
          w = z3.And([fr.eq(fx.lift(x), fx.lift(y)) for x, y in zip(list(orig['geom:g0'][1]), list(fused['site:s0'][1]))])
          ck.add(Ob('twin/wrong-oracle/%s' % tag, prune + [fr.formula(c) for c in pc] + [z3.Not(w)], None, expect='sat', timeout=30))
      ck.extra['fx_feasibility_queries'] = ck.extra.get('fx_feasibility_queries', 0) + drv.queries
  finally:
    mjcf.np = saved
  ck.functions['mjcf.fuse_bodies/_fuse_bodies/_offset/_transform_do + math.rotate_np/quat_mul_np (FX paths)'] = npaths
  ck.extra['paths_explored'] = npaths

  # ---- oracle validation + concrete end-to-end comparison on the part of the space where the current tree is right is done in replay;
  #      here: oracle vs MuJoCo on the ORIGINAL documents (independent of brax)
  for place, modes, tier, inst in skeletons[:: max(1, len(skeletons) // 12)]:
    tag = '%s/%s/tier%s%d' % (place, '-'.join(modes), tier, inst)
    text, vars_ = replay_docs[tag]
    env = {nm: round(rng.uniform(-0.8, 0.8), 3) for nm in vars_}
    cx = concretise(text, env)
    mj, _ = mj_poses(cx)
    ps = poses(ElementTree.fromstring(cx), lambda s: [float(x) for x in s.split()])
    compare_with_mujoco(ps, mj)
    ck.oracle_validated += 1
  ck.samples.append({'skeleton': 'jointed/both/tierA0', 'document_with_tokens': replay_docs.get('jointed/both/tierA0', ('',))[0][:600]})

  def fv(s):
    s = str(s).rstrip('?')
    return float(F(s)) if '/' in s else float(s)

  def replay(ob):
    tag = ob.meta['tag']
    text, vars_ = replay_docs[tag]
    r2 = random.Random(1)
    env = {nm: 0.0 for nm in vars_}
    for k, v in (ob.model or {}).items():
      if k in env:
        env[k] = fv(v)
    for attempt in range(4):
      cx = concretise(text, env)
      fusedx = mjcf.fuse_bodies(cx)
      try:
        a_, ma = mj_poses(cx)
        b_, mb = mj_poses(fusedx)
        break
      except ValueError:
        # the model left don't-care values at 0 (degenerate fromto etc.): give those generic values and keep the rest of the model
        env = {nm: (v if v != 0.0 else round(r2.uniform(0.1, 0.7), 2)) for nm, v in env.items()}
    else:
      return False, {'why': 'could not build a compilable document from the model'}
    log = []
    for nm, (xp, xm, half) in a_.items():
      if nm.startswith('body:J'):
        continue
      if nm not in b_:
        log.append('%s missing after fusion' % nm)
        continue
      if not (np.allclose(xp, b_[nm][0], atol=2e-5) and np.allclose(xm, b_[nm][1], atol=2e-5) and abs(half - b_[nm][2]) < 2e-5):
        log.append('%s moved: pos %s -> %s' % (nm, np.round(xp, 5).tolist(), np.round(b_[nm][0], 5).tolist()))
    for nm, (mass, inertia) in ma.items():
      if nm in mb and not (abs(mass - mb[nm][0]) < 1e-6 and np.allclose(np.sort(inertia), np.sort(mb[nm][1]), atol=1e-5)):
        if not nm.startswith('J') and nm != 'host':
          log.append('%s mass/inertia changed' % nm)
    return bool(log), {'original_xml': cx, 'fused_xml': fusedx, 'moved': log[:8]}
  ck.replayers['fuse'] = replay
  ck.discharge()
  ck.cross_check(n=2)


if __name__ == '__main__':
  report.main('C13', run)
