"""C17 — replay buffers behave as bounded FIFO queues with faithful sampling.

Inductive step from an arbitrary valid state: data = capacity-many symbolic record ids, sample_position sp a symbolic
Int, insert_position ip enumerated over 0..capacity (so every modulus in the traced code is a constant and the queries
stay in linear integer arithmetic); ONE insert of k symbolic records or ONE sample, compared with an abstract FIFO.
Since the pre-state is arbitrary-valid and the invariant is proved preserved, operation sequences of any length are
covered for each static configuration.  Host-side guards (check_can_insert / check_can_sample: plain Python) are
executed by the forking executor FX on a symbolic `_size`, and tied to the device state by the invariant
_size == ip - sp (non-cyclic) / _size == ip (cyclic).
"""
import itertools

import jax
import jax.numpy as jp
import numpy as np
import z3

from fx import core as fx
from lib import report
from sx import core, validate
from sx.core import lift
from sx.solve import Ob


def conj(xs):
  xs = [x for x in xs if not (isinstance(x, bool) and x)]
  if any(isinstance(x, bool) and not x for x in xs):
    return z3.BoolVal(False)
  return z3.And(xs) if xs else True


def run(ck, a):
  from brax.training import replay_buffers as rb
  thorough = ck.tier == 'thorough'
  caps = range(1, 7) if thorough else range(1, 5)
  ck.bounds = {'capacity': [min(caps), max(caps)], 'insert_batch': '1..capacity', 'sample_batch': '1..min(4,capacity)', 'modes': ['cyclic', 'non-cyclic'],
               'insert_position': 'enumerated 0..capacity', 'sample_position': 'symbolic Int under the invariant', 'records': 'symbolic reals (flat vector; one 2-leaf dict config)',
               'shards': '2..4 (vmapped PjitWrapper functions and pmapped PmapWrapper functions, concrete cursors, symbolic records)',
               'outside': 'int32 overflow; pytree records beyond a flat vector / 2-leaf dict'}
  ck.assumptions += ['jax.random.randint stubbed by its contract: values in [minval, maxval) when maxval > minval (environment stub)',
                     'mathematical integers for int32 (no overflow below 2^31)']
  key0 = jax.random.PRNGKey(0)
  replay_cfg = {}

  def mk(cap, b, cyclic, uniform=False):
    if uniform:
      return rb.UniformSamplingQueue(cap, jp.zeros((1,)), b)
    return rb.Queue(cap, jp.zeros((1,)), b, cyclic=cyclic)

  for cap in caps:
    data = core.reals('d', (cap, 1))
    sp = core.ints('sp')
    spv = sp.arr[()]
    # ------------------------------------------------------------ insert
    for k in range(1, cap + 1):
      Q = mk(cap, 1, False)
      upd = core.reals('u', (k, 1))
      for ipv in range(0, cap + 1):
        def ins(data, sp, upd):
          st = rb.ReplayBufferState(data=data, insert_position=jp.int32(ipv), sample_position=sp, key=key0)
          o = Q.insert_internal(st, upd)
          return o.data, o.insert_position, o.sample_position, Q.size(o)
        ctx = core.Ctx()
        (d2, ip2, sp2, sz2), cj = core.run(ctx, ins, data, sp, upd)
        ck.traced('QueueBase.insert_internal', cj)
        e = max(0, ipv + k - cap)                       # evicted
        H = [data[i, 0] for i in range(ipv)] + [upd[i, 0] for i in range(k)]
        H2 = H[e:]
        ipn = min(ipv + k, cap)
        goals = [core.s_eq(ip2[()], ipn)]
        goals += [core.s_eq(d2[i, 0], H2[i]) for i in range(ipn)]
        goals += [core.s_eq(sp2[()], z3.If(spv - e >= 0, spv - e, 0)), core.s_eq(sz2[()], ipn - z3.If(spv - e >= 0, spv - e, 0))]
        # invariant preserved: 0 <= sp' <= ip' <= cap
        goals += [lift(sp2[()]) >= 0, lift(sp2[()]) <= ipn]
        tag = 'cap=%d/k=%d/ip=%d' % (cap, k, ipv)
        replay_cfg[tag] = dict(op='insert', cap=cap, k=k, ip=ipv)
        ck.add(Ob('insert/' + tag, [spv >= 0, spv <= ipv], conj(goals), timeout=30, meta={'tag': tag}))
        if cap == 3 and k == 2 and ipv == 2:
          ck.validated += validate.validate(ctx, ins, (data, sp, upd), (d2, ip2, sp2, sz2), n=6, seed=ck.seed,
                                            sampler=lambda nm, t, rng: rng.randint(0, 2) if nm == 'sp' else None)
          ck.add(Ob('twin/insert-wrong-evict/' + tag, [spv >= 0, spv <= ipv, z3.Not(core.s_eq(sp2[()], z3.If(spv - e - 1 >= 0, spv - e - 1, 0)))], None, expect='sat', timeout=30))
          ck.samples.append({'config': tag, 'data_row0_after_insert': str(d2[0, 0])[:200], 'sample_position_after': str(sp2[()])[:200]})
    # ------------------------------------------------------------ sample (plain queue)
    for b, cyclic in itertools.product(range(1, min(4, cap) + 1), (False, True)):
      Q = mk(cap, b, cyclic)
      for ipv in range(1, cap + 1):
        def smp(data, sp):
          st = rb.ReplayBufferState(data=data, insert_position=jp.int32(ipv), sample_position=sp, key=key0)
          o, batch = Q.sample_internal(st)
          return batch, o.sample_position, o.insert_position, Q.size(o), o.data
        ctx = core.Ctx()
        (bt, sp3, ip3, sz3, d3), cj = core.run(ctx, smp, data, sp)
        ck.traced('Queue.sample_internal', cj)
        tag = 'cap=%d/b=%d/%s/ip=%d' % (cap, b, 'cyclic' if cyclic else 'fifo', ipv)
        replay_cfg[tag] = dict(op='sample', cap=cap, b=b, cyclic=cyclic, ip=ipv)
        # guard precondition: the host-side guard admits the call iff held >= b
        if cyclic:
          if ipv < b:
            continue
          pre = [spv >= 0, spv < ipv]
        else:
          pre = [spv >= 0, spv <= ipv, ipv - spv >= b]
        goals = []
        for s in range(0, ipv + 1):
          g = [core.s_eq(bt[i, 0], data[(s + i) % ipv, 0]) for i in range(b)]
          g.append(core.s_eq(sp3[()], (s + b) % ipv if cyclic else s + b))
          g.append(core.s_eq(sz3[()], ipv if cyclic else ipv - s - b))
          goals.append(z3.Implies(spv == s, conj(g)))
        goals += [core.s_eq(ip3[()], ipv)] + [core.s_eq(d3[i, 0], data[i, 0]) for i in range(cap)]
        if cyclic:
          goals += [lift(sp3[()]) >= 0, lift(sp3[()]) < ipv]
        else:
          goals += [lift(sp3[()]) >= 0, lift(sp3[()]) <= ipv]
        ck.add(Ob('sample/' + tag, pre, conj(goals), timeout=30, meta={'tag': tag}))
    # ------------------------------------------------------------ uniform queue
    for b in range(1, min(3, cap) + 1):
      Q = mk(cap, b, False, uniform=True)
      for ipv in range(1, cap + 1):
        def usmp(data, sp):
          st = rb.ReplayBufferState(data=data, insert_position=jp.int32(ipv), sample_position=sp, key=key0)
          o, batch = Q.sample_internal(st)
          return batch, o.sample_position, o.insert_position, o.data
        ctx = core.Ctx()
        (bt, sp3, ip3, d3), cj = core.run(ctx, usmp, data, sp)
        ck.traced('UniformSamplingQueue.sample_internal', cj)
        ck.stubs |= ctx.stubs
        tag = 'cap=%d/b=%d/uniform/ip=%d' % (cap, b, ipv)
        replay_cfg[tag] = dict(op='usample', cap=cap, b=b, ip=ipv)
        pre = [spv >= 0, spv < ipv] + ctx.side
        goals = [z3.Or([z3.And(spv <= j, lift(bt[i, 0]) == data[j, 0]) for j in range(ipv)]) for i in range(b)]
        goals += [core.s_eq(sp3[()], spv), core.s_eq(ip3[()], ipv)] + [core.s_eq(d3[i, 0], data[i, 0]) for i in range(cap)]
        ck.add(Ob('uniform-sample-returns-held-unsampled-records/' + tag, pre, conj(goals), timeout=30, meta={'tag': tag}))
        if cap == 3 and b == 2 and ipv == 3:
          ck.add(Ob('twin/reach/' + tag, pre, None, expect='sat', timeout=30))
          ck.add(Ob('twin/uniform-could-return-any-held/' + tag, pre + [spv == 1, lift(bt[0, 0]) == data[2, 0], lift(bt[1, 0]) == data[1, 0]], None, expect='sat', timeout=30))
          # determinism: same key and state -> same batch (two symbolic runs)
          ctxb = core.Ctx()
          ctxb.rand, ctxb.n = dict(ctx.rand), ctx.n
          (bt2, _, _, _), _ = core.run(ctxb, usmp, data, sp)
          ck.add(Ob('uniform-deterministic-in-key/' + tag, pre, conj([core.s_eq(bt[i, 0], bt2[i, 0]) for i in range(b)]), timeout=30, meta={'tag': tag}))

  # ------------------------------------------------------------ host-side guards (FX on the real methods) + invariant link
  for cap in caps:
    for b, cyclic in itertools.product(range(1, min(4, cap) + 1), (False, True)):
      for k in range(1, cap + 2):     # k = cap+1: oversize insert must be refused
        Q = mk(cap, b, cyclic)
        size0 = z3.Int('size')
        samples = jp.zeros((k, 1))
        def go():
          Q._size = fx.Sym(size0)
          Q.check_can_insert(None, samples, 1)
          return Q._size
        drv = fx.Driver(pre=[size0 >= 0, size0 <= cap])
        outs = list(drv.paths(go))
        ck.functions['QueueBase.check_can_insert (FX paths)'] = max(ck.functions.get('QueueBase.check_can_insert (FX paths)', 0), len(outs))
        for pi, (pc, (kind, val)) in enumerate(outs):
          tag = 'cap=%d/b=%d/%s/k=%d/path%d' % (cap, b, 'cyclic' if cyclic else 'fifo', k, pi)
          if k > cap:
            ck.add(Ob('guard/oversize-insert-refused/' + tag, [size0 >= 0, size0 <= cap] + pc, z3.BoolVal(kind == 'raise' and isinstance(val, ValueError)), timeout=10))
            continue
          if kind != 'ok':
            ck.add(Ob('guard/insert-accepted/' + tag, [size0 >= 0, size0 <= cap] + pc, z3.BoolVal(False), timeout=10))
            continue
          new = fx.term(val)
          new = lift(new, size0) if core.isc(new) else new
          # invariant link: with _size == held before, _size' == held after the device-side insert (held' from the insert obligations)
          ip_, sp_ = z3.Int('ip'), z3.Int('sp')
          e = z3.If(ip_ + k - cap >= 0, ip_ + k - cap, 0)
          ipn = z3.If(ip_ + k <= cap, ip_ + k, cap)
          spn = z3.If(sp_ - e >= 0, sp_ - e, 0)
          held, heldn = (ip_, ipn) if cyclic else (ip_ - sp_, ipn - spn)
          ck.add(Ob('guard/insert-keeps-_size==held/' + tag, [sp_ >= 0, sp_ <= ip_, ip_ <= cap, size0 == held] + pc, new == heldn, timeout=10,
                    meta={'tag': tag, 'guard': dict(cap=cap, b=b, cyclic=cyclic, k=k)}))
      Q = mk(cap, b, cyclic)
      size0 = z3.Int('size')
      def go2():
        Q._size = fx.Sym(size0)
        Q.check_can_sample(None, 1)
        return Q._size
      drv = fx.Driver(pre=[size0 >= 0, size0 <= cap])
      outs = list(drv.paths(go2))
      ck.functions['Queue.check_can_sample (FX paths)'] = max(ck.functions.get('Queue.check_can_sample (FX paths)', 0), len(outs))
      for pi, (pc, (kind, val)) in enumerate(outs):
        tag = 'cap=%d/b=%d/%s/path%d' % (cap, b, 'cyclic' if cyclic else 'fifo', pi)
        refused = kind == 'raise' and isinstance(val, ValueError)
        # refuses iff fewer than b records are available
        ck.add(Ob('guard/sample-refused-iff-size<b/' + tag, [size0 >= 0, size0 <= cap] + pc, (size0 < b) if refused else (size0 >= b), timeout=10,
                  meta={'tag': tag, 'guard': dict(cap=cap, b=b, cyclic=cyclic, k=0)}))
        if kind == 'ok':
          new = fx.term(val)
          new = lift(new, size0) if core.isc(new) else new
          ck.add(Ob('guard/sample-keeps-_size==held/' + tag, [size0 >= 0, size0 <= cap] + pc, new == (size0 if cyclic else size0 - b), timeout=10,
                    meta={'tag': tag, 'guard': dict(cap=cap, b=b, cyclic=cyclic, k=0)}))

  # ------------------------------------------------------------ sharded wrappers: routing of records (concrete cursors, symbolic records)
  from jax.sharding import Mesh
  ndev = len(jax.devices())
  for D in [d for d in (2, 3, 4) if d <= ndev]:
    cap, b, per = 3, 2, 2
    for wrapper in ('pjit', 'pmap'):
      inner = rb.Queue(cap, jp.zeros((1,)), b, cyclic=False)
      if wrapper == 'pjit':
        mesh = Mesh(np.array(jax.devices()[:D]), ('x',))
        W = rb.PjitWrapper(inner, mesh, ('x',))
      else:
        W = rb.PmapWrapper(inner, local_device_count=D)
      recs = core.reals('r', (per * D, 1))
      data0 = core.reals('d', (D, cap, 1))
      ip0 = np.array([1] * D)   # one record already held in every shard
      def wins(data, recs):
        st = rb.ReplayBufferState(data=data, insert_position=jp.array(ip0, dtype=jp.int32), sample_position=jp.zeros((D,), jp.int32),
                                  key=jax.random.split(key0, D))
        if wrapper == 'pjit':
          with mesh:
            o = W._partitioned_insert(st, recs)
            o2, batch = W._partitioned_sample(o)
        else:
          samples = jp.swapaxes(jp.reshape(recs, (-1, D) + recs.shape[1:]), 0, 1)
          o = jax.pmap(inner.insert_internal)(st, samples)
          o2, batch = jax.pmap(inner.sample_internal)(o)
          batch = jp.reshape(jp.swapaxes(batch, 0, 1), (-1,) + batch.shape[2:])
        return o.data, o.insert_position, batch, o2.sample_position
      ctx = core.Ctx()
      try:
        (d2, ip2, batch, sp2), cj = core.run(ctx, wins, data0, recs)
      except core.SXUnsupported as ex:
        ck.harness_error('sharded %s D=%d: %s' % (wrapper, D, ex))
        continue
      ck.traced('%sWrapper insert+sample (D=%d)' % (wrapper.capitalize(), D), cj)
      goals = []
      for dv in range(D):
        goals.append(core.s_eq(ip2[dv], 1 + per))
        goals.append(core.s_eq(d2[dv, 0, 0], data0[dv, 0, 0]))
        for j in range(per):
          goals.append(core.s_eq(d2[dv, 1 + j, 0], recs[dv + j * D, 0]))     # shard dv receives records dv, dv+D, ...
        goals.append(core.s_eq(sp2[dv], b))
      for i in range(b):
        for dv in range(D):
          goals.append(core.s_eq(batch[i * D + dv, 0], d2[dv, i, 0]))          # batches interleave in shard order
      ck.add(Ob('sharded/%s/D=%d routing and interleaving' % (wrapper, D), [], conj(goals), timeout=30, meta={'tag': 'sharded'}))

  # ------------------------------------------------------------ pytree records (2-leaf dict): ravel / unravel order
  cap, k, b = 3, 2, 2
  dummy = {'a': jp.zeros((2,)), 'b': jp.zeros(())}
  Q = rb.Queue(cap, dummy, b)
  ua, ub = core.reals('ua', (k, 2)), core.reals('ub', (k,))
  def pt(ua, ub):
    st = Q.init(key0)
    st = Q.insert_internal(st, {'a': ua, 'b': ub})
    st, out = Q.sample_internal(st)
    return out['a'], out['b']
  ctx = core.Ctx()
  (oa, ob_), cj = core.run(ctx, pt, ua, ub)
  ck.traced('Queue init+insert+sample on a 2-leaf dict record', cj)
  ck.add(Ob('pytree-records-round-trip', [], conj([core.s_eq(oa[i, j], ua[i, j]) for i in range(k) for j in range(2)] + [core.s_eq(ob_[i], ub[i]) for i in range(k)]), timeout=30,
            meta={'tag': 'pytree'}))

  # ------------------------------------------------------------ replay through the public API
  def ival(s):
    return int(str(s))

  def replay(ob):
    tag = ob.meta.get('tag')
    m = ob.model or {}
    g = ob.meta.get('guard')
    if g is not None:
      # drive the real public API from a reachable state that realises (ip, sp): fill, sample, then the operation
      cap, b, cyclic, k = g['cap'], g['b'], g['cyclic'], g['k']
      Q = rb.Queue(cap, jp.zeros((1,)), b, cyclic=cyclic)
      st = Q.init(key0)
      hist, model, log = [], [], []
      import collections
      size = ival(m.get('size', 0))
      ip = ival(m.get('ip', size))
      nxt = 1.0
      # reach ip records held, then sample until `size` remain (non-cyclic)
      for _ in range(ip):
        st = Q.insert(st, jp.array([[nxt]]))
        model.append(nxt)
        nxt += 1
      unsampled = list(model)
      bad = False
      try:
        while not cyclic and len(unsampled) - b >= size and len(unsampled) >= b and len(unsampled) > size:
          st, out = Q.sample(st)
          exp = unsampled[:b]
          unsampled = unsampled[b:]
          if not np.allclose(np.asarray(out)[:, 0], exp):
            bad = True
        if k:
          new = [nxt + i for i in range(k)]
          st = Q.insert(st, jp.array(new)[:, None])
          model = (model + new)[-cap:]
          ev = max(0, len(unsampled) + 0)
          unsampled = [x for x in (unsampled + new) if x in model]
        # now drain and compare with the abstract queue
        for _ in range(cap + 2):
          if len(unsampled) < b and not cyclic:
            try:
              Q.sample(st)
              bad = True
              log.append('sample admitted with %d < %d records' % (len(unsampled), b))
            except ValueError:
              pass
            break
          if cyclic:
            break
          st, out = Q.sample(st)
          exp = unsampled[:b]
          unsampled = unsampled[b:]
          if not np.allclose(np.asarray(out)[:, 0], exp):
            bad = True
            log.append('sampled %s expected %s' % (np.asarray(out)[:, 0].tolist(), exp))
          if int(Q.size(st)) != len(unsampled):
            bad = True
            log.append('size %d expected %d' % (int(Q.size(st)), len(unsampled)))
      except ValueError as ex:
        bad = True
        log.append('unexpected refusal: %s' % ex)
      return bad, {'config': g, 'model': m, 'log': log}
    cfg = replay_cfg.get(tag)
    if cfg is None:
      return True, {'model': m, 'note': 'structural obligation on traced wrapper / pytree code'}
    cap = cfg['cap']
    d = np.array([[float(i + 1)] for i in range(cap)])
    spc = ival(m.get('sp', 0))
    st = rb.ReplayBufferState(data=jp.array(d), insert_position=jp.int32(cfg['ip']), sample_position=jp.int32(spc), key=key0)
    if cfg['op'] == 'insert':
      k = cfg['k']
      Q = rb.Queue(cap, jp.zeros((1,)), 1)
      u = np.array([[100.0 + i] for i in range(k)])
      o = Q.insert_internal(st, jp.array(u))
      e = max(0, cfg['ip'] + k - cap)
      H2 = ([d[i, 0] for i in range(cfg['ip'])] + [u[i, 0] for i in range(k)])[e:]
      ipn = min(cfg['ip'] + k, cap)
      bad = int(o.insert_position) != ipn or not np.allclose(np.asarray(o.data)[:ipn, 0], H2) or int(o.sample_position) != max(0, spc - e)
      return bad, {'config': cfg, 'sp': spc, 'observed': [np.asarray(o.data)[:, 0].tolist(), int(o.insert_position), int(o.sample_position)],
                   'expected': [H2, ipn, max(0, spc - e)]}
    if cfg['op'] == 'sample':
      Q = rb.Queue(cap, jp.zeros((1,)), cfg['b'], cyclic=cfg['cyclic'])
      o, out = Q.sample_internal(st)
      exp = [d[(spc + i) % cfg['ip'], 0] for i in range(cfg['b'])]
      esp = (spc + cfg['b']) % cfg['ip'] if cfg['cyclic'] else spc + cfg['b']
      bad = not np.allclose(np.asarray(out)[:, 0], exp) or int(o.sample_position) != esp
      return bad, {'config': cfg, 'sp': spc, 'observed': [np.asarray(out)[:, 0].tolist(), int(o.sample_position)], 'expected': [exp, esp]}
    if cfg['op'] == 'usample':
      Q = rb.UniformSamplingQueue(cap, jp.zeros((1,)), cfg['b'])
      bad = False
      obs = []
      for s in range(20):
        o, out = Q.sample_internal(st.replace(key=jax.random.PRNGKey(s)))
        vals = np.asarray(out)[:, 0].tolist()
        obs.append(vals)
        if any(v not in [d[j, 0] for j in range(spc, cfg['ip'])] for v in vals):
          bad = True
      return bad, {'config': cfg, 'sp': spc, 'observed_batches': obs[:5]}
    return True, {'model': m}
  for p in ('insert/', 'sample/', 'uniform', 'guard/', 'sharded/', 'pytree'):
    ck.replayers[p] = replay
  ck.discharge()
  ck.cross_check(n=2)


if __name__ == '__main__':
  report.main('C17', run)
