"""C10 — contact detection reports the true geometry of primitive pairs.

Encoded: contact.get(sys, x) including the mjx collision functions it dispatches to (plane-sphere, plane-capsule, sphere-sphere, sphere-capsule,
capsule-capsule), traced on scenes (plane + 2-3 free bodies carrying sphere / capsule geoms at local offsets / orientations) loaded by the real
mjcf.loads.  Link POSITIONS and per-geom elasticities are symbolic reals; link and geom orientations are exact rational unit quaternions (Tier B).
Oracle: closed forms as terms.  Linear cases exactly; distance cases by optimality conditions (no second algorithm): the reported witness points lie
on both shapes' segments and no other pair of segment points is closer.
"""
import itertools
import random
from fractions import Fraction as F

import jax
import jax.numpy as jp
import numpy as np
import z3

from gen import models
from lib import report
from spec import kin
from sx import core, validate
from sx.core import lift
from sx.fr import Fr
from sx.solve import Ob


def scene(rng, nb, kinds=None, one_geom=False):
  bodies = []
  gi = 0
  for i in range(nb):
    geoms = []
    for k in range(1 if one_geom else rng.choice([1, 1, 2])):
      kind = (kinds[gi % len(kinds)] if kinds else rng.choice(['sphere', 'capsule']))
      g = {'type': kind, 'name': 'g%d' % gi, 'pos': models.vec(rng, -0.2, 0.2), 'quat': rng.choice(models.QUATS),
           'size': (rng.choice([0.05, 0.1, 0.15]),) if kind == 'sphere' else (rng.choice([0.05, 0.1]), rng.choice([0.1, 0.2, 0.25]))}
      geoms.append(g)
      gi += 1
    bodies.append({'name': 'b%d' % i, 'parent': -1, 'pos': (float(i), 0, 1), 'quat': (1, 0, 0, 0), 'joints': [{'name': 'f%d' % i, 'type': 'free'}], 'geoms': geoms,
                   'mass': 1.0, 'inertia': (0.2, 0.2, 0.2), 'ipos': (0, 0, 0)})
  ngeom = gi + 1
  spec = {'bodies': bodies, 'actuators': [], 'world_geoms': [{'type': 'plane', 'size': (5, 5, 1), 'pos': (0, 0, rng.choice([0, -0.1, 0.2])), 'quat': rng.choice([(1, 0, 0, 0), (0.8, 0.6, 0, 0)]), 'name': 'floor'}],
          'custom': ['<tuple name="elasticity">' + ''.join('<element objtype="geom" objname="%s" prm="%r"/>' % (nm, 0.1 * (j + 1)) for j, nm in enumerate(['floor'] + ['g%d' % j for j in range(gi)])) + '</tuple>']}
  return spec


def run(ck, a):
  import mujoco
  from brax import contact
  from brax.base import Transform
  from brax.io import mjcf
  thorough = ck.tier == 'thorough'
  rng = random.Random(1000 + ck.seed)
  nscenes = 12 if thorough else 4
  nslices = 2 if thorough else 1
  ck.bounds = {'scenes': nscenes, 'bodies': '2-3 free bodies + a (possibly tilted) plane', 'geoms': 'sphere / capsule, 1-2 per body, local offset and orientation',
               'full mode': 'ALL link positions and per-geom elasticities symbolic: attribution, elasticity, plane-sphere, plane-capsule (linear closed forms)',
               'slice mode': 'distance pairs (sphere-sphere, sphere-capsule, capsule-capsule): one body moves along a symbolic line (parameter in [-1,1]) through an exact '
               'rational configuration, %d lines per scene' % nslices,
               'tier B': 'link and geom orientations are exact rational unit quaternions',
               'slack': 'sphere-capsule optimality up to 1e-9 m^2 (upstream regularises the projection by 1e-6); capsule-capsule informational only (epsilon-regularised upstream)',
               'outside': 'boxes, meshes, convex pairs; float round-off; coincident centres'}
  ck.assumptions += ['reals for floats', 'sqrt as constrained variable', 'slice mode: sphere centres >= 1 cm apart and a sphere centre >= 1 cm from the axis line of a paired capsule']
  kinds_cycle = [['sphere', 'sphere'], ['capsule', 'sphere'], ['capsule', 'capsule'], None, ['sphere', 'capsule'], ['sphere', 'sphere'], ['capsule', 'capsule'], None]   # capsule-on-earlier-link + sphere-on-later-link: geom1 of the pair is on the LATER link
  replay_scenes = {}
  for si in range(nscenes):
    small = (si % 4 != 3)          # 3 of 4 scenes: two bodies with one geom each (slice mode affordable); every 4th: 3 bodies, several geoms, full mode only
    spec = scene(rng, 2, kinds_cycle[si % len(kinds_cycle)], one_geom=True) if small else scene(rng, 3, None)
    xml = models.to_xml(spec)
    try:
      sys_ = mjcf.loads(xml)
    except Exception as ex:
      ck.harness_error('scene %d does not load: %r' % (si, ex))
      continue
    mj = mujoco.MjModel.from_xml_string(xml)
    nb = len(spec['bodies'])
    ng = mj.ngeom
    # loader plumbing (brax/io/mjcf.py _get_custom): the per-geom elasticity of the DOCUMENT must land in slot <geom id> of sys.elasticity, for both ways of
    # writing it (a <tuple> of geom elements, a <numeric> vector with one value per geom).  The values are pairwise distinct, the loader moves them without
    # arithmetic, so slot identity for these tokens is slot identity for every value; everything downstream takes sys.elasticity as symbolic reals.
    doc_el = {'floor': 0.1}
    for j_ in range(ng - 1):
      doc_el['g%d' % j_] = 0.1 * (j_ + 2)
    gnames = [mujoco.mj_id2name(mj, mujoco.mjtObj.mjOBJ_GEOM, i) for i in range(ng)]
    want_el = [doc_el[n_] for n_ in gnames]
    spec_v = dict(spec, custom=['<numeric name="elasticity" data="%s"/>' % ' '.join(repr(x) for x in want_el)])
    for form, sy in (('tuple', lambda: sys_), ('numeric-vector', lambda: mjcf.loads(models.to_xml(spec_v)))):
      try:
        got_el = [float(x) for x in np.asarray(sy().elasticity)]
      except Exception as ex:
        got_el = ['loader raised %r' % (ex,)]
      okl = len(got_el) == ng and all(isinstance(x, float) and abs(x - w) < 1e-12 for x, w in zip(got_el, want_el))
      ck.add(Ob('loader-elasticity/%s/s%02d' % (form, si), [], z3.BoolVal(bool(okl)), timeout=5, meta={'form': form, 'xml': xml if form == 'tuple' else models.to_xml(spec_v), 'want': want_el, 'got': got_el}))
    rots = [rng.choice(models.QUATS) for _ in range(nb)]
    rot = core.consts([[F(repr(float(x))) for x in r] for r in rots])
    el = core.reals('e', (ng,))
    gq_pos = [[F(repr(float(x))) for x in mj.geom_pos[i]] for i in range(ng)]
    gpos = core.consts(gq_pos)
    doc_q = {'floor': spec['world_geoms'][0]['quat']}
    for b in spec['bodies']:
      for g in b['geoms']:
        doc_q[g['name']] = g['quat']
    names = [mujoco.mj_id2name(mj, mujoco.mjtObj.mjOBJ_GEOM, i) for i in range(ng)]
    gq_exact = [[F(repr(float(x))) for x in doc_q[n]] for n in names]
    if not np.allclose(np.array(gq_exact, dtype=float), mj.geom_quat, atol=1e-12):
      ck.harness_error('scene %d: geom quats of the compiled model differ from the document' % si)
      continue
    gquat = core.consts(gq_exact)
    tag0 = 's%02d' % si

    def f(pos, rot, el, gpos, gquat):
      s = sys_.tree_replace({'elasticity': el, 'geom_pos': gpos, 'geom_quat': gquat})
      c = contact.get(s, Transform(pos=pos, rot=rot))
      return c.dist, c.pos, c.frame, c.link_idx[0], c.link_idx[1], c.elasticity, c.geom1, c.geom2

    def gworld(pos, gid):
      b = int(mj.geom_bodyid[gid]) - 1
      if b < 0:
        P, Q = [0, 0, 0], [1, 0, 0, 0]
      else:
        P, Q = list(pos[b]), [F(repr(float(x))) for x in rots[b]]
      c = kin.vadd(P, kin.qrot(gq_pos[gid], Q))
      q = kin.qmul(Q, gq_exact[gid])
      return c, kin.qrot([0, 0, 1], q)

    def emit(pos, mode, tag, pre):
      ctx = core.Ctx(fold=(mode == 'slice'), assume=pre)
      ctx.lemma_timeout = 300
      try:
        (dist, cpos, frame, l1, l2, cel, g1, g2), cj = core.run(ctx, f, pos, rot, el, gpos, gquat)
      except core.SXUnsupported as ex:
        ck.harness_error('scene %s: %s' % (tag, ex))
        return
      ck.traced('contact.get (+ mjx collision primitives)', cj)
      ck.log('%s %s traced: folds %s' % (tag, mode, ctx.fold_stats))
      ck.extra['predicate_folds'] = ck.extra.get('predicate_folds', 0) + ctx.fold_stats['folded']
      if mode == 'full' and si < 2:
        try:
          ck.validated += validate.validate(ctx, f, (pos, rot, el, gpos, gquat), (dist, cpos, frame, l1, l2, cel, g1, g2), n=3, seed=ck.seed + si)
        except validate.ValidationError as ex:
          ck.harness_error('translator validation scene %d: %s' % (si, ex))
      fr = Fr.for_ctx(ctx)
      side = [fr.formula(s_, _top=False) for s_ in ctx.side] + list(pre)
      seen_pairs = {}
      for k in range(dist.shape[0]):
        a_, b_ = int(g1[k]), int(g2[k])
        ta, tb = int(mj.geom_type[a_]), int(mj.geom_type[b_])
        idx_in_pair = seen_pairs.get((a_, b_), 0)
        seen_pairs[(a_, b_)] = idx_in_pair + 1
        name = '%s/contact%d/%s-%s' % (tag, k, names[a_], names[b_])
        meta = {'tag': tag, 'k': k}
        ca, axa = gworld(pos, a_)
        cb, axb = gworld(pos, b_)
        ra, rb = F(repr(float(mj.geom_size[a_, 0]))), F(repr(float(mj.geom_size[b_, 0])))
        ha, hb = F(repr(float(mj.geom_size[a_, 1]))), F(repr(float(mj.geom_size[b_, 1])))
        n = [frame[k, 0, c] for c in range(3)]
        d = dist[k]
        P = [cpos[k, c] for c in range(3)]
        E = lambda x, y: fr.formula(lift(x) == lift(y))
        if mode == 'full':
          att = [core.s_eq(l1[k], int(mj.geom_bodyid[a_]) - 1), core.s_eq(l2[k], int(mj.geom_bodyid[b_]) - 1)]
          ck.add(Ob('link_idx/' + name, [], z3.BoolVal(all(bool(x) for x in att)) if all(isinstance(x, bool) for x in att) else z3.And([lift(x) for x in att]), timeout=10, meta=meta))
          ck.add(Ob('elasticity/' + name, [], lift(cel[k]) == (el[a_] + el[b_]) / 2, timeout=10, meta=meta))
          if ta == 0 and tb == 2:
            nd = kin.dot(axa, kin.vsub(cb, ca))
            goals = [E(d, core.s_sub(nd, rb))] + [E(n[c], axa[c]) for c in range(3)] + [E(P[c], core.s_sub(cb[c], core.s_mul(axa[c], core.s_add(rb, core.s_div(d, 2))))) for c in range(3)]
            ck.add(Ob('plane-sphere/' + name, side, z3.And(goals), timeout=30, meta=meta))
          elif ta == 0 and tb == 3:
            sg = 1 if idx_in_pair == 0 else -1
            e_ = kin.vadd(cb, kin.vscale(sg * hb, axb))
            nd = kin.dot(axa, kin.vsub(e_, ca))
            goals = [E(d, core.s_sub(nd, rb))] + [E(n[c], axa[c]) for c in range(3)] + [E(P[c], core.s_sub(e_[c], core.s_mul(axa[c], core.s_add(rb, core.s_div(d, 2))))) for c in range(3)]
            ck.add(Ob('plane-capsule/' + name, side, z3.And(goals), timeout=30, meta=meta))
          continue
        # ---- slice mode: distance pairs
        if ta == 2 and tb == 2:
          dv = kin.vsub(cb, ca)
          D = core.s_add(d, core.s_add(ra, rb))
          goals = [fr.formula(lift(core.s_mul(D, D)) == lift(kin.dot(dv, dv))), fr.formula(lift(D) >= 0)]
          goals += [fr.formula(lift(core.s_mul(n[c], D)) == lift(dv[c])) for c in range(3)]
          goals += [fr.formula(lift(P[c]) == lift(core.s_add(ca[c], core.s_mul(n[c], core.s_add(ra, core.s_div(d, 2)))))) for c in range(3)]
          ck.add(Ob('sphere-sphere/' + name, side, z3.And(goals), timeout=60, meta=meta))
        elif ta == 2 and tb == 3:
          A = kin.vsub(cb, kin.vscale(hb, axb))
          Bp = kin.vadd(cb, kin.vscale(hb, axb))
          D = core.s_add(d, core.s_add(ra, rb))
          pt = [core.s_add(ca[c], core.s_mul(n[c], D)) for c in range(3)]
          seg = kin.vsub(Bp, A)
          tpar = kin.dot(kin.vsub(pt, A), seg)
          s_ = z3.Real('s!opt')
          ps = [lift(A[c]) + s_ * lift(seg[c]) for c in range(3)]
          closer = sum((lift(ca[c]) - ps[c]) * (lift(ca[c]) - ps[c]) for c in range(3))
          goals = [fr.formula(lift(kin.dot(n, n)) == 1), fr.formula(lift(D) >= 0)]
          goals += [fr.formula(lift(x) == 0) for x in kin.cross(kin.vsub(pt, A), seg)] + [fr.formula(lift(tpar) >= 0), fr.formula(lift(tpar) <= lift(kin.dot(seg, seg)))]
          goals += [fr.formula(lift(P[c]) == lift(core.s_add(ca[c], core.s_mul(n[c], core.s_add(ra, core.s_div(d, 2)))))) for c in range(3)]
          ck.add(Ob('sphere-capsule witness on segment/' + name, side, z3.And(goals), timeout=90, core=False, meta=meta))
          ck.add(Ob('sphere-capsule optimality/' + name, side + [s_ >= 0, s_ <= 1], fr.formula(lift(core.s_mul(D, D)) <= closer + F(1, 10**9)), timeout=90, core=False, meta=meta))
        elif ta == 3 and tb == 3:
          A1, B1 = kin.vsub(ca, kin.vscale(ha, axa)), kin.vadd(ca, kin.vscale(ha, axa))
          A2, B2 = kin.vsub(cb, kin.vscale(hb, axb)), kin.vadd(cb, kin.vscale(hb, axb))
          D = core.s_add(d, core.s_add(ra, rb))
          p1 = [core.s_sub(P[c], core.s_mul(n[c], core.s_add(ra, core.s_div(d, 2)))) for c in range(3)]
          p2 = [core.s_add(p1[c], core.s_mul(n[c], D)) for c in range(3)]
          goals = [fr.formula(lift(kin.dot(n, n)) == 1), fr.formula(lift(D) >= 0)]
          for (pp, A_, B_) in ((p1, A1, B1), (p2, A2, B2)):
            seg = kin.vsub(B_, A_)
            goals += [fr.formula(lift(x) == 0) for x in kin.cross(kin.vsub(pp, A_), seg)]
            tp = kin.dot(kin.vsub(pp, A_), seg)
            goals += [fr.formula(lift(tp) >= -F(1, 10**6)), fr.formula(lift(tp) <= lift(kin.dot(seg, seg)) + F(1, 10**6))]
          ck.add(Ob('info/capsule-capsule witnesses on segments/' + name, side, z3.And(goals), timeout=60, core=False, kind='lemma', meta=meta))
      if mode == 'full' and si == 0:
        pin = [posf_ == F(3 * i + c + 1, 7) for i in range(nb) for c in range(3) for posf_ in [pos[i, c]]]
        ck.add(Ob('twin/reach/' + tag, side + pin, None, expect='sat', timeout=60))
        ck.add(Ob('twin/wrong-elasticity/' + tag, [z3.Not(lift(cel[0]) == el[int(g1[0])])], None, expect='sat', timeout=30))
        ck.samples.append({'scene': tag, 'xml': xml, 'dist0': str(dist[0])[:300]})
      if mode == 'slice' and si == 0:
        ck.add(Ob('twin/reach/' + tag, side, None, expect='sat', timeout=30))

    # full mode
    posf = core.reals('p', (nb, 3))
    replay_scenes[tag0] = (xml, rots, None)
    emit(posf, 'full', tag0, [])
    # slice mode
    has_dist_pair = any(int(mj.geom_type[x]) != 0 and int(mj.geom_type[y]) != 0 and mj.geom_bodyid[x] != mj.geom_bodyid[y] for x, y in itertools.combinations(range(ng), 2))
    if not has_dist_pair or not small:
      continue
    lam = z3.Real('lam')
    for sl in range(nslices):
      mover = rng.randrange(nb)
      base = [[F(rng.randint(-6, 6), 10) + (F(3, 4) * i if c == 0 else 0) for c in range(3)] for i in range(nb)]
      direction = [F(rng.randint(-5, 5), 5) for _ in range(3)]
      if all(x == 0 for x in direction):
        direction[0] = F(1)
      pos = np.empty((nb, 3), dtype=object)
      for i in range(nb):
        for c in range(3):
          pos[i, c] = base[i][c] + direction[c] * lam if i == mover else base[i][c]
      pre = [lam >= -1, lam <= 1]
      for ga, gb in itertools.combinations(range(ng), 2):
        ta_, tb_ = int(mj.geom_type[ga]), int(mj.geom_type[gb])
        if mj.geom_bodyid[ga] == mj.geom_bodyid[gb] or 0 in (ta_, tb_):
          continue
        ca_, axa_ = gworld(pos, ga)
        cb_, axb_ = gworld(pos, gb)
        if ta_ == 2 and tb_ == 2:
          dv_ = kin.vsub(cb_, ca_)
          v = kin.dot(dv_, dv_)
          if core.isc(v):
            if v < F(1, 10**4):
              pre.append(z3.BoolVal(False))
          else:
            pre.append(v >= F(1, 10**4))
        elif {ta_, tb_} == {2, 3}:
          (cs_, _), (cc_, ax_) = ((ca_, axa_), (cb_, axb_)) if ta_ == 2 else ((cb_, axb_), (ca_, axa_))
          cr_ = kin.cross(kin.vsub(cs_, cc_), ax_)
          v = kin.dot(cr_, cr_)
          if core.isc(v):
            if v < F(1, 10**4):
              pre.append(z3.BoolVal(False))
          else:
            pre.append(v >= F(1, 10**4))
      tag = '%s/slice%d' % (tag0, sl)
      replay_scenes[tag] = (xml, rots, ([[float(x) for x in r] for r in base], mover, [float(x) for x in direction]))
      emit(pos, 'slice', tag, pre)

  def fv(s):
    s = str(s).rstrip('?')
    return float(F(s)) if '/' in s else float(s)

  def replay(ob):
    tag, k = ob.meta['tag'], ob.meta['k']
    xml, rots, sl = replay_scenes[tag]
    m = {kk: fv(v) for kk, v in (ob.model or {}).items()}
    sys_ = mjcf.loads(xml)
    mj = mujoco.MjModel.from_xml_string(xml)
    nb = len(rots)
    if sl is None:
      P = np.array([[m.get('p_%d_%d' % (i, c), 0.37 * (i + 1) + 0.11 * c) for c in range(3)] for i in range(nb)])
    else:
      base, mover, direction = sl
      P = np.array(base, dtype=float)
      P[mover] = P[mover] + m.get('lam', 0.0) * np.array(direction)
    el = np.array([m.get('e_%d' % i, 0.1 * (i + 1)) for i in range(mj.ngeom)])
    s2 = sys_.tree_replace({'elasticity': jp.array(el)})
    c = contact.get(s2, Transform(pos=jp.array(P), rot=jp.array(np.array(rots, dtype=float))))
    a_, b_ = int(c.geom1[k]), int(c.geom2[k])
    # independent numeric reference: brute-force closest points between the primitives
    def gw(g):
      b = int(mj.geom_bodyid[g]) - 1
      if b < 0:
        R, p = np.eye(3), np.zeros(3)
      else:
        q = np.array(rots[b], dtype=float)
        R = c13_qmat(q)
        p = P[b]
      Rg = R @ c13_qmat(mj.geom_quat[g])
      return p + R @ mj.geom_pos[g], Rg[:, 2]
    ca, axa = gw(a_)
    cb, axb = gw(b_)
    ta, tb = int(mj.geom_type[a_]), int(mj.geom_type[b_])
    ra, rb, ha, hb = mj.geom_size[a_, 0], mj.geom_size[b_, 0], mj.geom_size[a_, 1], mj.geom_size[b_, 1]
    ts = np.linspace(-1, 1, 2001)
    if ta == 0:
      pts = [cb] if tb == 2 else [cb + hb * axb, cb - hb * axb]
      ds = sorted(float(axa @ (p - ca) - rb) for p in pts)
      got = sorted(float(c.dist[kk]) for kk in range(c.dist.shape[0]) if int(c.geom1[kk]) == a_ and int(c.geom2[kk]) == b_)
      bad = not np.allclose(ds, got, atol=1e-7)
      exp = ds
    else:
      A = ca[None] + (ts[:, None] * ha * axa[None] if ta == 3 else 0)
      Bm = cb[None] + (ts[:, None] * hb * axb[None] if tb == 3 else 0)
      dmin = np.min(np.linalg.norm(A[:, None, :] - Bm[None, :, :], axis=-1)) if (ta == 3 and tb == 3) else np.min(np.linalg.norm(A - Bm, axis=-1)) if ta != tb or ta == 2 else 0
      exp = float(dmin - ra - rb)
      bad = abs(float(c.dist[k]) - exp) > 2e-3
      got = float(c.dist[k])
    nvec = np.asarray(c.frame[k, 0])
    if ta != 0 and np.linalg.norm(cb - ca) > 1e-6 and ta == 2 and tb == 2:
      bad = bad or float(nvec @ (cb - ca)) < 0
    exp_el = 0.5 * (el[a_] + el[b_])
    bad = bad or abs(float(c.elasticity[k]) - exp_el) > 1e-9 or int(c.link_idx[0][k]) != int(mj.geom_bodyid[a_]) - 1 or int(c.link_idx[1][k]) != int(mj.geom_bodyid[b_]) - 1
    return bool(bad), {'xml': xml, 'link_pos': P.tolist(), 'link_rot': [list(map(float, r)) for r in rots], 'elasticity': el.tolist(), 'contact': k,
                       'observed': {'dist': got, 'elasticity': float(c.elasticity[k]), 'link_idx': [int(c.link_idx[0][k]), int(c.link_idx[1][k])], 'normal': nvec.tolist()},
                       'expected': {'dist': exp, 'elasticity': float(exp_el)}}
  from checks.c13 import qmat as c13_qmat
  for p in ('link_idx', 'elasticity', 'plane-', 'sphere-', 'capsule-'):
    ck.replayers[p] = replay
  def replay_loader(ob):
    try:
      got = [float(x) for x in np.asarray(mjcf.loads(ob.meta['xml']).elasticity)]
    except Exception as ex:
      return True, {'xml': ob.meta['xml'], 'loader_raised': repr(ex), 'expected_sys_elasticity': ob.meta['want']}
    bad = len(got) != len(ob.meta['want']) or any(abs(x - w) > 1e-12 for x, w in zip(got, ob.meta['want']))
    return bool(bad), {'xml': ob.meta['xml'], 'expected_sys_elasticity': ob.meta['want'], 'observed_sys_elasticity': got}
  ck.replayers['loader-elasticity'] = replay_loader
  ck.discharge()
  ck.cross_check(n=1, timeout=10)


if __name__ == '__main__':
  report.main('C10', run)
