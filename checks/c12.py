"""C12 — the generalized integrator is consistent: conserved quantities drift only O(dt)   (decided in its first-order form).

The property is asymptotic.  Its solver-decidable core: the first-order term in dt of the one-step change of the conserved quantity vanishes
identically.  With E = kinetic + gravitational + joint-spring energy of the REFERENCE mechanics (spec/mech.py, validated against mujoco every run),
   dE/dt = qd . ( M_ref qdd + c_ref + K q )        along any motion,
so the first-order drift vanishes iff  qd . (M_ref qdd_brax + c_ref - passive_ref) == 0  where qdd_brax is the acceleration the REAL generalized.pipeline.step
uses (state.qdd, through the exact linear solve).  For free-floating models the momentum rate  sum_b m_b (a_b|qdd=0 + Jv_b qdd_brax)  must equal (sum m) g.
If the first-order term is non-zero the drift over a fixed horizon is O(1) and does not halve with dt; if it vanishes, standard consistency gives
O(dt) drift (this bridge is mathematics, stated, not checked).  Outside: the multi-step horizon itself and second-order terms.
"""
import math
import random
from fractions import Fraction as F

import jax
import jax.numpy as jp
import numpy as np
import z3

from checks.c01 import TS, half_point
from gen import models
from lib import report
from spec import mech
from sx import core
from sx.core import lift, s_add, s_mul, s_sub
from sx.fr import Fr
from sx.solve import Ob

EXACT_INV = ['<numeric name="matrix_inv_iterations" data="0"/>']


def run(ck, a):
  from brax.generalized import pipeline as gp
  from brax.io import mjcf
  thorough = ck.tier == 'thorough'
  rng = random.Random(1200)
  rng2 = random.Random(1201)
  ck.bounds = {'models': 'conservative generator models (no damping, limits, actuators, contacts; joint springs and armature allowed): pendulum with a slide on a rotated body, double pendulum, '
               'free body, free root + hinge, hinge-slide-hinge stack on one body', 'symbolic': 'all velocities (stronger than |qd| <= 1), root position, slide coordinates', 'tier B': 'hinge half-angles at exact rational points, '
               'root orientation exact rational', 'outside': 'the 0.05-0.1 s horizon itself (50-100 steps), second-order terms, float round-off'}
  ck.assumptions += ['reals for floats', 'reference mechanics validated against real mujoco each run', 'consistency (vanishing first-order term) => O(dt) drift: textbook bridge, not checked']
  cfgs = [(['h', 's'], False), (['h', 'h'], False), ([], True), (['h'], True), (['hsh'], False)] if not thorough else [(['h', 's'], False), (['h', 'h'], False), ([], True), (['h'], True), (['hsh'], False), (['hs'], False), (['s'], True), (['shh'], False)]
  replay = {}
  qtemplate = {}
  cfgs = cfgs + [(['two-trees'], None)]
  for words, free in cfgs:
    if free is None:
      spec = models.merge_specs([models.tree_model(rng, ['h'], free_root=False, root_word='h', ortho=False, limits_p=0.0, joint_props=False),
                                 models.tree_model(rng, ['h'], free_root=False, root_word='h', ortho=False, limits_p=0.0, joint_props=False)])
      free = False
    elif free:
      spec = models.tree_model(rng, words, free_root=True, ortho=False, limits_p=0.0, actuators=0, joint_props=False)
    else:
      spec = models.tree_model(rng, words[1:], free_root=False, root_word=words[0], ortho=False, limits_p=0.0, actuators=0, joint_props=False)
    for b in spec['bodies']:
      for j in b['joints']:
        if j['type'] != 'free':
          j['stiffness'] = rng.choice([0, 2.0])
          j['armature'] = rng2.choice([0, 0.05, 0.1])     # rotor inertia is part of the conserved energy (reference M has it on the diagonal)
    spec['custom'] = EXACT_INV
    xml = models.to_xml(spec)
    sys_ = mjcf.loads(xml)
    ck.oracle_validated += mech.validate(spec, xml, rng, n=3)
    ex = models.exact_params(spec)
    keys = sorted(ex)
    ctx = core.Ctx(fold=True)
    ctx.pair_cos_min = F(27, 50)
    ctx.lemma_timeout = 300
    q, qd = [], []
    for b in spec['bodies']:
      for j in b['joints']:
        if j['type'] == 'free':
          q += [z3.Real('q%d' % (len(q) + i)) for i in range(3)] + [F(repr(float(x))) for x in rng.choice(models.QUATS)]
          qd += [z3.Real('v%d' % (len(qd) + i)) for i in range(6)]
        else:
          v = z3.Real('q%d' % len(q))
          if j['type'] == 'hinge':
            ctx.angle_points[v.decl().name()] = half_point(rng.choice(TS))
          else:
            ctx.assume += [v >= -2, v <= 2]
          q.append(v)
          qd.append(z3.Real('v%d' % len(qd)))
    pars = [core.consts(ex[kx]) for kx in keys]
    qtemplate[None] = [str(c_) if not core.isc(c_) else float(c_) for c_ in q]
    for c_ in q:
      if not core.isc(c_) and str(c_) in ctx.angle_points:
        sh_, ch_ = ctx.angle_points[str(c_)]
        qtemplate[None][qtemplate[None].index(str(c_))] = 2.0 * math.atan2(float(sh_), float(ch_))
    def f(q, qd, *ps):
      s_ = sys_.tree_replace({kx: p for kx, p in zip(keys, ps)})
      st = gp.init(s_, q, qd)
      o = gp.step(s_, st, jp.zeros(s_.act_size()))
      return o.qdd, o.qd
    tag = '%s%s' % ('free+' if free else 'world-', '.'.join(words) or 'single')
    hard = bool(free and any('s' in w for w in words))      # free root + slide: 7x7 symbolic solve with a symbolic slide coordinate -- extended (thorough tier only)
    try:
      (qdd, qd2), cj = core.run(ctx, f, core.obj_array(q), core.obj_array(qd), *pars)
    except (core.SXUnsupported, ZeroDivisionError, ValueError, AssertionError) as e_:
      ck.harness_error('%s: %r' % (tag, e_))
      continue
    ck.traced('generalized.pipeline.init+step (qdd)', cj)
    ck.stubs |= ctx.stubs
    replay[tag] = xml
    qtemplate[tag] = qtemplate.pop(None)
    nv = len(qd)
    Mr, cr, pr = mech.dynamics(spec, q, qd, lambda c_: ctx.sincos(core.s_div(c_, 2)), np.asarray(sys_.gravity))
    fr = Fr.for_ctx(ctx)
    side = [fr.formula(s_, _top=False) for s_ in ctx.side] + list(ctx.assume)
    dt = F(repr(float(sys_.opt.timestep)))
    # energy: first-order drift  qd . (M_ref qdd + c_ref - passive_ref)
    power = 0
    resid = []
    for i in range(nv):
      r = s_sub(cr[i], pr[i])
      for j2 in range(nv):
        r = s_add(r, s_mul(Mr[i][j2], qdd[j2]))
      resid.append(r)
      power = s_add(power, s_mul(qd[i], r))
    defs = []
    g_energy = fr.formula(lift(power) == 0)
    defs = [f_ != 0 for f_ in fr.factors()]
    ck.add(Ob('energy: first-order drift vanishes/%s' % tag, side + defs, g_energy, timeout=180, core=not hard, meta={'tag': tag}))
    # the step's velocity increment is dt * qdd (no damping)
    ck.add(Ob('step uses qdd: qd\' == qd + dt qdd/%s' % tag, side + defs, z3.And([fr.formula(lift(qd2[i]) == lift(s_add(qd[i], s_mul(dt, qdd[i])))) for i in range(nv)]), timeout=120, meta={'tag': tag}))
    if free:
      # linear momentum rate: sum_b m_b (a_b|qdd=0 + Jv_b qdd) == (sum m) g
      jets = mech.body_jets(spec, q, qd, lambda c_: ctx.sincos(core.s_div(c_, 2)))
      cols = [mech.body_jets(spec, q, [1 if k == i else 0 for k in range(nv)], lambda c_: ctx.sincos(core.s_div(c_, 2))) for i in range(nv)]
      g = [core.num(float(x)) for x in np.asarray(sys_.gravity)]
      goals = []
      mt = 0
      rate = [0, 0, 0]
      for bi, b in enumerate(spec['bodies']):
        m_b = core.num(float(b['mass']))
        mt = s_add(mt, m_b)
        _, acc, _, _ = mech.rates(jets[bi][0], jets[bi][1])
        for c in range(3):
          a_c = acc[c]
          for i in range(nv):
            jv = mech.rates(cols[i][bi][0], cols[i][bi][1])[0]
            a_c = s_add(a_c, s_mul(jv[c], qdd[i]))
          rate[c] = s_add(rate[c], s_mul(m_b, a_c))
      for c in range(3):
        goals.append(fr.formula(lift(rate[c]) == lift(s_mul(mt, g[c]))))
      ck.add(Ob('momentum: d/dt sum m v == (sum m) g to first order/%s' % tag, side + [f_ != 0 for f_ in fr.factors()], z3.And(goals), timeout=180, core=not hard, meta={'tag': tag}))
    if words == ['h', 'h']:
      ck.add(Ob('twin/reach/' + tag, side + defs, None, expect='sat', timeout=60))
      wrong = fr.formula(lift(s_add(power, s_mul(qd[0], qd[0]))) == 0)
      ck.add(Ob('twin/wrong-energy-law/' + tag, side + defs + [z3.Not(wrong)], None, expect='sat', timeout=60))
      ck.samples.append({'model': tag, 'xml': xml})

  def fv(x):
    x = str(x).rstrip('?')
    return float(F(x)) if '/' in x else float(x)

  def rep(ob):
    """Replay on the real code.  (1) at the solver's state (or random states when there is no model): the first-order energy rate
    qd . (M qdd_brax + bias - passive), with qdd_brax from the real generalized step and M / bias / passive from MuJoCo (mj_mulM, qfrc_bias, qfrc_passive), must vanish;
    (2) the property's own observable: the energy drift over a fixed horizon for dt, dt/2, dt/4 must roughly halve."""
    import mujoco
    tag = ob.meta['tag']
    xml = replay[tag]
    m = {k_: fv(v_) for k_, v_ in (ob.model or {}).items()}
    r = np.random.RandomState(0)
    s0 = mjcf.loads(xml)
    mj = mujoco.MjModel.from_xml_string(xml)
    mj.opt.enableflags |= mujoco.mjtEnableBit.mjENBL_ENERGY
    def energy(qv, vv):
      d = mujoco.MjData(mj)
      d.qpos[:], d.qvel[:] = qv, vv
      mujoco.mj_forward(mj, d)
      return float(d.energy[0] + d.energy[1])
    def power(qv, vv):
      st = gp.init(s0, jp.array(qv), jp.array(vv))
      o = gp.step(s0, st, jp.zeros(s0.act_size()))
      qdd = np.asarray(o.qdd, dtype=float)
      d = mujoco.MjData(mj)
      d.qpos[:], d.qvel[:] = qv, vv
      mujoco.mj_forward(mj, d)
      Mq = np.zeros(mj.nv)
      mujoco.mj_mulM(mj, d, Mq, qdd)
      resid = Mq + d.qfrc_bias - d.qfrc_passive
      scale = float(np.abs(vv) @ (np.abs(Mq) + np.abs(d.qfrc_bias) + np.abs(d.qfrc_passive))) + 1e-9
      return float(vv @ resid), scale, resid, qdd
    trials = []
    tpl = qtemplate[tag]
    if m:
      q0 = np.array([m.get(c_, 0.0) if isinstance(c_, str) else c_ for c_ in tpl], dtype=float)
      v0 = np.array([m.get('v%d' % i, 0.0) for i in range(s0.qd_size())])
      if np.abs(v0).max() > 50:
        v0 = v0 / np.abs(v0).max()      # the identity is homogeneous enough: keep the direction, avoid float blow-up
      trials.append((q0, v0))
    for _ in range(4):
      q0 = np.array([r.uniform(-0.8, 0.8) if isinstance(c_, str) else c_ for c_ in tpl], dtype=float)
      trials.append((q0, r.uniform(-1, 1, s0.qd_size())))
    for q0, v0 in trials:
      P, scale, resid, qdd = power(q0, v0)
      if abs(P) > 1e-6 * max(scale, 1.0):
        drifts = []
        for dt in (1e-3, 5e-4, 2.5e-4):
          s = s0.tree_replace({'opt.timestep': dt})
          st = gp.init(s, jp.array(q0), jp.array(v0))
          e0 = energy(q0, v0)
          step = jax.jit(lambda st_: gp.step(s, st_, jp.zeros(s.act_size())))
          for _ in range(int(round(0.05 / dt))):
            st = step(st)
          drifts.append(energy(np.asarray(st.q), np.asarray(st.qd)) - e0)
        return True, {'xml': xml, 'q0': q0.tolist(), 'qd0': v0.tolist(), 'first_order_energy_rate qd.(M qdd_brax + bias - passive) [W]': P, 'scale': scale,
                      'qdd_brax': qdd.tolist(), 'residual M qdd + bias - passive': resid.tolist(), 'energy_drift_over_0.05s_for_dt_1e-3_5e-4_2.5e-4': drifts}
    return False, {'why': 'first-order energy rate vanishes (<= 1e-6 relative) at the solver state and 4 random states'}
  for p_ in ('energy', 'momentum', 'step uses'):
    ck.replayers[p_] = rep
  ck.discharge()
  # replayer self-test: on obligations the solver discharged, the concrete replay must NOT report a violation (guards the replayer against conventions drift)
  done_tags = set()
  for o in ck.obs:
    if o.status == 'unsat' and o.name.startswith('energy') and (thorough or len(done_tags) < 3) and o.meta['tag'] not in done_tags:
      done_tags.add(o.meta['tag'])
      bad, info = rep(o)
      if bad:
        ck.harness_error('replayer self-test: %s is proved by the solver but the replay reports a violation: %s' % (o.name, str(info)[:300]))
  ck.extra['replayer_self_tests'] = sorted(done_tags)
  ck.cross_check(n=1, timeout=10)


if __name__ == '__main__':
  report.main('C12', run)
