"""C09 — Transforms, motions, forces and inertias obey rigid-body spatial algebra.

Every law is a harness that calls the real brax functions on symbolic inputs; the obligation is lhs == rhs (or a
stated inequality) for ALL real inputs.  Unit quaternions / unit vectors are rationally parametrised (Tier A) and
denominators are cleared, so each query is a polynomial identity decided by z3's nlsat.
"""
import math
from fractions import Fraction as F

import jax
import jax.numpy as jp
import numpy as np
import z3

from lib import report
from sx import core, validate
from sx.core import lift
from sx.fr import Fr
from sx.solve import Ob


def uquat(name):
  p = core.reals(name, (3,))
  n2 = p[0] * p[0] + p[1] * p[1] + p[2] * p[2]
  return np.array([(1 - n2) / (1 + n2), 2 * p[0] / (1 + n2), 2 * p[1] / (1 + n2), 2 * p[2] / (1 + n2)], dtype=object)


def uvec(name):
  u, v = z3.Reals(name + '_u ' + name + '_v')
  d = 1 + u * u + v * v
  return np.array([2 * u / d, 2 * v / d, (u * u + v * v - 1) / d], dtype=object)


def sym3(name):
  s = core.reals(name, (6,))
  return np.array([[s[0], s[1], s[2]], [s[1], s[3], s[4]], [s[2], s[4], s[5]]], dtype=object)


def laws():
  from brax import math as M
  from brax.base import Transform, Motion, Force, Inertia
  R, UQ = core.reals, uquat
  L = []

  def law(name, inputs, fn, pre=None, core_=True, mutant=None, fold=False, timeout=60, defined_pre=False, cands=None):
    L.append(dict(name=name, inputs=inputs, fn=fn, pre=pre, core=core_, mutant=mutant, fold=fold, timeout=timeout,
                  defined_pre=defined_pre, cands=cands))

  T = lambda p, q: Transform(pos=p, rot=q)
  # ---- quaternions (arbitrary, not necessarily unit)
  law('quat_mul associative', lambda: (R('a', (4,)), R('b', (4,)), R('c', (4,))),
      lambda a, b, c: (M.quat_mul(M.quat_mul(a, b), c), M.quat_mul(a, M.quat_mul(b, c))),
      mutant=lambda a, b, c: (M.quat_mul(M.quat_mul(a, b), c), M.quat_mul(a, M.quat_mul(c, b))))
  law('quat norm multiplicative', lambda: (R('a', (4,)), R('b', (4,))),
      lambda a, b: (jp.dot(M.quat_mul(a, b), M.quat_mul(a, b)), jp.dot(a, a) * jp.dot(b, b)))
  law('quat_inv is the conjugate inverse', lambda: (R('a', (4,)),),
      lambda a: (M.quat_mul(a, M.quat_inv(a)), jp.dot(a, a) * jp.array([1., 0, 0, 0])))
  law('quat identity', lambda: (R('a', (4,)),),
      lambda a: (jp.concatenate([M.quat_mul(a, jp.array([1., 0, 0, 0])), M.quat_mul(jp.array([1., 0, 0, 0]), a)]), jp.concatenate([a, a])))
  law('rotate by product == successive rotation', lambda: (R('v', (3,)), R('a', (4,)), R('b', (4,))),
      lambda v, a, b: (M.rotate(v, M.quat_mul(a, b)), M.rotate(M.rotate(v, b), a)),
      mutant=lambda v, a, b: (M.rotate(v, M.quat_mul(a, b)), M.rotate(M.rotate(v, a), b)))
  law('rotate preserves norm (homogeneous form |q|^4 |v|^2)', lambda: (R('v', (3,)), R('a', (4,))),
      lambda v, a: (jp.dot(M.rotate(v, a), M.rotate(v, a)), jp.dot(a, a) ** 2 * jp.dot(v, v)))
  law('rotate is linear in v', lambda: (R('v', (3,)), R('w', (3,)), R('k'), R('a', (4,))),
      lambda v, w, k, a: (M.rotate(k * v + w, a), k * M.rotate(v, a) + M.rotate(w, a)))
  law('rotate agrees with quat_to_3x3', lambda: (R('v', (3,)), R('a', (4,))),
      lambda v, a: (M.quat_to_3x3(a) @ v * jp.dot(a, a), M.rotate(v, a)), pre=lambda v, a: [lift(sum(x * x for x in a)) > 0])
  law('quat_to_3x3 is orthogonal', lambda: (R('a', (4,)),),
      lambda a: (M.quat_to_3x3(a) @ M.quat_to_3x3(a).T, jp.eye(3)), pre=lambda a: [lift(sum(x * x for x in a)) > 0])
  law('inv_rotate inverts rotate (unit q)', lambda: (R('v', (3,)), UQ('a')),
      lambda v, a: (M.inv_rotate(M.rotate(v, a), a), v))
  law('rotate_np agrees with rotate', lambda: (R('v', (3,)), R('a', (4,))),
      lambda v, a: (M.rotate(v, a), M.rotate(v, a)), core_=False)  # placeholder: rotate_np is checked in C13 (FX)
  law('vec_quat_mul == quat_mul((0,u), q)', lambda: (R('u', (3,)), R('a', (4,))),
      lambda u, a: (M.vec_quat_mul(u, a), M.quat_mul(jp.concatenate([jp.zeros(1), u]), a)))
  law('ang_to_quat embeds the vector', lambda: (R('u', (3,)),),
      lambda u: (M.ang_to_quat(u), jp.concatenate([jp.zeros(1), u])))
  law('relative_quat(q1,q2) * q1 == |q1|^2 q2', lambda: (R('a', (4,)), R('b', (4,))),
      lambda a, b: (M.quat_mul(M.relative_quat(a, b), a), jp.dot(a, a) * b))
  law('quat_rot_axis rotates about its axis and fixes it', lambda: (uvec('n'), R('v', (3,)), R('th')),
      lambda n, v, th: (jp.concatenate([M.rotate(n, M.quat_rot_axis(n, th)), jp.dot(M.rotate(v, M.quat_rot_axis(n, th)), n)[None]]),
                        jp.concatenate([n, jp.dot(v, n)[None]])))
  law('quat_rot_axis angles add', lambda: (uvec('n'), R('th'), R('ph')),
      lambda n, th, ph: (M.quat_mul(M.quat_rot_axis(n, th), M.quat_rot_axis(n, ph)),
                         jp.concatenate([(jp.cos(th / 2) * jp.cos(ph / 2) - jp.sin(th / 2) * jp.sin(ph / 2))[None],
                                         n * (jp.sin(th / 2) * jp.cos(ph / 2) + jp.cos(th / 2) * jp.sin(ph / 2))])))
  # ---- transforms
  law('Transform.do associative', lambda: (R('p1', (3,)), R('q1', (4,)), R('p2', (3,)), R('q2', (4,)), R('p3', (3,)), R('q3', (4,))),
      lambda p1, q1, p2, q2, p3, q3: (lambda a, b: (jp.concatenate([a.pos, a.rot]), jp.concatenate([b.pos, b.rot])))(
          T(p1, q1).do(T(p2, q2)).do(T(p3, q3)), T(p1, q1).do(T(p2, q2).do(T(p3, q3)))))
  law('Transform identity', lambda: (R('p1', (3,)), R('q1', (4,))),
      lambda p1, q1: (lambda a, b: (jp.concatenate([a.pos, a.rot, b.pos, b.rot]), jp.concatenate([p1, q1, p1, q1])))(
          Transform.zero().do(T(p1, q1)), T(p1, q1).do(Transform.zero())))
  law('to_local inverts do (unit q)', lambda: (R('p1', (3,)), UQ('q1'), R('p2', (3,)), UQ('q2')),
      lambda p1, q1, p2, q2: (lambda a: (jp.concatenate([a.pos, a.rot]), jp.concatenate([p1, q1])))(T(p2, q2).do(T(p1, q1)).to_local(T(p2, q2))))
  law('t.to_local(t) is the identity (unit q)', lambda: (R('p1', (3,)), UQ('q1')),
      lambda p1, q1: (lambda a: (jp.concatenate([a.pos, a.rot]), jp.array([0., 0, 0, 1, 0, 0, 0])))(T(p1, q1).to_local(T(p1, q1))))
  law('Transform.create / zero defaults', lambda: (R('p1', (3,)), R('q1', (4,))),
      lambda p1, q1: (jp.concatenate([Transform.create(pos=p1).rot, Transform.create(rot=q1).pos, Transform.create(pos=p1).pos, Transform.zero().rot]),
                      jp.concatenate([jp.array([1., 0, 0, 0]), jp.zeros(3), p1, jp.array([1., 0, 0, 0])])))
  # ---- motions / forces
  MF = lambda: (R('p1', (3,)), UQ('q1'), R('ma', (3,)), R('mv', (3,)), R('fa', (3,)), R('fv', (3,)))
  law('Motion.inv_do inverts do (unit q)', lambda: (R('p1', (3,)), UQ('q1'), R('ma', (3,)), R('mv', (3,))),
      lambda p1, q1, ma, mv: (lambda a, b: (jp.concatenate([a.ang, a.vel, b.ang, b.vel]), jp.concatenate([ma, mv, ma, mv])))(
          T(p1, q1).inv_do(T(p1, q1).do(Motion(ma, mv))), T(p1, q1).do(T(p1, q1).inv_do(Motion(ma, mv)))))
  law('power is frame independent: X m . f == m . X* f (unit q)', MF,
      lambda p1, q1, ma, mv, fa, fv: (T(p1, q1).do(Motion(ma, mv)).dot(Force(fa, fv)), Motion(ma, mv).dot(T(p1, q1).do(Force(fa, fv)))),
      mutant=lambda p1, q1, ma, mv, fa, fv: (T(p1, q1).do(Motion(ma, mv)).dot(Force(fa, fv)), Motion(ma, mv).dot(T(-p1, q1).do(Force(fa, fv)))))
  law('motion transforms compose (unit q)', lambda: (R('p1', (3,)), UQ('q1'), R('p2', (3,)), UQ('q2'), R('ma', (3,)), R('mv', (3,))),
      lambda p1, q1, p2, q2, ma, mv: (lambda a, b: (jp.concatenate([a.ang, a.vel]), jp.concatenate([b.ang, b.vel])))(
          T(p1, q1).do(T(p2, q2)).do(Motion(ma, mv)), T(p2, q2).do(T(p1, q1).do(Motion(ma, mv)))))
  law('force transforms compose (unit q)', lambda: (R('p1', (3,)), UQ('q1'), R('p2', (3,)), UQ('q2'), R('fa', (3,)), R('fv', (3,))),
      lambda p1, q1, p2, q2, fa, fv: (lambda a, b: (jp.concatenate([a.ang, a.vel]), jp.concatenate([b.ang, b.vel])))(
          T(p1, q1).do(T(p2, q2)).do(Force(fa, fv)), T(p1, q1).do(T(p2, q2).do(Force(fa, fv)))))
  law('Motion.dot / matrix', lambda: (R('ma', (3,)), R('mv', (3,)), R('fa', (3,)), R('fv', (3,))),
      lambda ma, mv, fa, fv: (jp.concatenate([Motion(ma, mv).dot(Force(fa, fv))[None], Motion(ma, mv).matrix()]),
                              jp.concatenate([(jp.dot(ma, fa) + jp.dot(mv, fv))[None], ma, mv])))
  # ---- spatial cross products
  M2 = lambda: (R('ma', (3,)), R('mv', (3,)), R('na', (3,)), R('nv', (3,)), R('fa', (3,)), R('fv', (3,)))
  law('motion cross antisymmetric', M2,
      lambda ma, mv, na, nv, fa, fv: (lambda a, b, c: (jp.concatenate([a.ang, a.vel, c.ang, c.vel]), jp.concatenate([-b.ang, -b.vel, jp.zeros(6)])))(
          Motion(ma, mv).cross(Motion(na, nv)), Motion(na, nv).cross(Motion(ma, mv)), Motion(ma, mv).cross(Motion(ma, mv))))
  law('cross products dual: (m x n).f == -n.(m x* f)', M2,
      lambda ma, mv, na, nv, fa, fv: (Motion(ma, mv).cross(Motion(na, nv)).dot(Force(fa, fv)), -Motion(na, nv).dot(Motion(ma, mv).cross(Force(fa, fv)))),
      mutant=lambda ma, mv, na, nv, fa, fv: (Motion(ma, mv).cross(Motion(na, nv)).dot(Force(fa, fv)), Motion(na, nv).dot(Motion(ma, mv).cross(Force(fa, fv)))))
  law('motion cross is the Lie bracket (Jacobi identity)', lambda: tuple(R(n, (3,)) for n in ('ma', 'mv', 'na', 'nv', 'oa', 'ov')),
      lambda ma, mv, na, nv, oa, ov: (lambda a, b, c: (lambda x: (jp.concatenate([x.ang, x.vel]), jp.zeros(6)))(
          jax.tree.map(lambda u, v, w: u + v + w, a.cross(b.cross(c)), b.cross(c.cross(a)), c.cross(a.cross(b)))))(Motion(ma, mv), Motion(na, nv), Motion(oa, ov)))
  law('cross product is equivariant under frame change (unit q)', lambda: (R('p1', (3,)), UQ('q1'), R('ma', (3,)), R('mv', (3,)), R('na', (3,)), R('nv', (3,))),
      lambda p1, q1, ma, mv, na, nv: (lambda a, b: (jp.concatenate([a.ang, a.vel]), jp.concatenate([b.ang, b.vel])))(
          T(p1, q1).do(Motion(ma, mv).cross(Motion(na, nv))), T(p1, q1).do(Motion(ma, mv)).cross(T(p1, q1).do(Motion(na, nv)))))
  # ---- inertia
  def ke(p1, q1, ma, mv, i6, mass):
    i = jp.array([[i6[0], i6[1], i6[2]], [i6[1], i6[3], i6[4]], [i6[2], i6[4], i6[5]]])
    it = Inertia(transform=Transform.zero(), i=i, mass=mass)
    t = T(p1, q1)
    mB = t.do(Motion(ma, mv))
    return mB.dot(it.mul(mB)), Motion(ma, mv).dot(t.do(it).mul(Motion(ma, mv)))
  law('moving an inertia preserves kinetic energy (unit q)', lambda: (R('p1', (3,)), UQ('q1'), R('ma', (3,)), R('mv', (3,)), R('i', (6,)), R('mass')), ke,
      mutant=lambda p1, q1, ma, mv, i6, mass: (ke(p1, q1, ma, mv, i6, mass)[0], ke(-p1, q1, ma, mv, i6, mass)[1]))
  def imul(ma, mv, na, nv, i6, mass, h):
    i = jp.array([[i6[0], i6[1], i6[2]], [i6[1], i6[3], i6[4]], [i6[2], i6[4], i6[5]]])
    it = Inertia(transform=Transform(pos=h, rot=jp.array([1., 0, 0, 0])), i=i, mass=mass)
    return Motion(na, nv).dot(it.mul(Motion(ma, mv))), Motion(ma, mv).dot(it.mul(Motion(na, nv)))
  law('Inertia.mul is a symmetric form', lambda: (R('ma', (3,)), R('mv', (3,)), R('na', (3,)), R('nv', (3,)), R('i', (6,)), R('mass'), R('h', (3,))), imul)
  def itrans(p1, q1, i6, mass):
    i = jp.array([[i6[0], i6[1], i6[2]], [i6[1], i6[3], i6[4]], [i6[2], i6[4], i6[5]]])
    it = T(p1, q1).do(Inertia(transform=Transform.zero(), i=i, mass=mass))
    r = M.quat_to_3x3(q1)
    par = mass * (jp.dot(p1, p1) * jp.eye(3) - jp.outer(p1, p1))
    return (jp.concatenate([it.i.reshape(-1), it.transform.pos, it.mass[None]]),
            jp.concatenate([(r @ i @ r.T + par).reshape(-1), p1 * mass, mass[None]]))
  law('Transform.do(Inertia) is the parallel-axis theorem', lambda: (R('p1', (3,)), UQ('q1'), R('i', (6,)), R('mass')), itrans)
  # ---- constructions
  def det_ref(m):
    return (m[0, 0] * (m[1, 1] * m[2, 2] - m[1, 2] * m[2, 1]) - m[0, 1] * (m[1, 0] * m[2, 2] - m[1, 2] * m[2, 0])
            + m[0, 2] * (m[1, 0] * m[2, 1] - m[1, 1] * m[2, 0]))
  def adj_ref(m):
    c = lambda i, j: m[(i + 1) % 3, (j + 1) % 3] * m[(i + 2) % 3, (j + 2) % 3] - m[(i + 1) % 3, (j + 2) % 3] * m[(i + 2) % 3, (j + 1) % 3]
    return jp.array([[c(j, i) for j in range(3)] for i in range(3)])
  law('inv_3x3 == adjugate / (det + 1e-10)', lambda: (R('m', (3, 3)),),
      lambda m: (M.inv_3x3(m) * (jp.linalg.det(m) + 1e-10), adj_ref(m)), timeout=120, defined_pre=True)
  law('adjugate(m) m == det(m) I (reference algebra) and jp.linalg.det == cofactor expansion', lambda: (R('m', (3, 3)),),
      lambda m: (jp.concatenate([(adj_ref(m) @ m).reshape(-1), jp.linalg.det(m)[None]]), jp.concatenate([(det_ref(m) * jp.eye(3)).reshape(-1), det_ref(m)[None]])),
      core_=False, timeout=200)
  def ft(v1, v2):
    q = M.from_to(v1, v2)
    return jp.concatenate([M.rotate(v1, q), jp.dot(q, q)[None]]), jp.concatenate([v2, jp.ones(1)])
  def ft_inputs(gq=None, sv=None):
    # every non-antipodal pair of unit vectors: v1 = R(g) e_x, v2 = R(g) (cos th e_x + sin th e_y), quarter-angle parameter s
    g = uquat('g') if gq is None else [F(x) for x in gq]
    w, x, y, z = g
    Rm = [[1 - 2 * (y * y + z * z), 2 * (x * y - w * z)], [2 * (x * y + w * z), 1 - 2 * (x * x + z * z)], [2 * (x * z - w * y), 2 * (y * z + w * x)]]
    s_ = z3.Real('s') if sv is None else F(sv)
    ch, sh = (1 - s_ * s_) / (1 + s_ * s_), 2 * s_ / (1 + s_ * s_)
    ct, st = ch * ch - sh * sh, 2 * sh * ch
    v1 = np.array([Rm[i][0] for i in range(3)], dtype=object)
    v2 = np.array([Rm[i][0] * ct + Rm[i][1] * st for i in range(3)], dtype=object)
    return v1, v2
  QS = [(1, 0, 0, 0), (F(1, 2), F(1, 2), F(1, 2), F(1, 2)), (F(3, 5), 0, F(4, 5), 0), (F(2, 7), F(3, 7), F(6, 7), 0), (F(1, 9), F(4, 9), F(-8, 9), 0),
        (F(2, 3), F(-1, 3), 0, F(2, 3))]
  for k, gq in enumerate(QS):
    law('from_to rotates v1 onto v2, frame %d fixed, all angles |theta|<168deg' % k, (lambda gq=gq: ft_inputs(gq=gq)), ft,
        pre=lambda v1, v2: [z3.Real('s') > -F(9, 10), z3.Real('s') < F(9, 10)], timeout=60, fold=True)
  for k, sv in enumerate([0, F(1, 3), F(-1, 2), F(7, 10), F(-4, 5)]):
    law('from_to rotates v1 onto v2, angle %d fixed, all frames' % k, (lambda sv=sv: ft_inputs(sv=sv)), ft, timeout=60, fold=True,
        core_=(k < 3))
  def ft_anti(v1):
    q = M.from_to(v1, -v1)
    return jp.concatenate([M.rotate(v1, q), jp.dot(q, q)[None]]), jp.concatenate([-v1, jp.ones(1)])
  RND = [F(repr(float(x))) for x in np.asarray(jax.random.uniform(jax.random.PRNGKey(0), (3,)))]
  def not_parallel_to_draw(v1):
    cr = [v1[1] * RND[2] - v1[2] * RND[1], v1[2] * RND[0] - v1[0] * RND[2], v1[0] * RND[1] - v1[1] * RND[0]]
    return [lift(cr[0] * cr[0] + cr[1] * cr[1] + cr[2] * cr[2]) > F(1, 10**12)]
  law('from_to(v, -v) (antipodal branch) rotates v onto -v and is defined unless v is within 1e-6 rad of the fixed pseudo-random helper draw',
      lambda: (uvec('a'),), ft_anti, pre=not_parallel_to_draw, timeout=60, fold=True)
  def orth(a):
    b, c = M.orthogonals(a)
    return (jp.array([jp.dot(a, b), jp.dot(a, c), jp.dot(b, c), jp.dot(b, b), jp.dot(c, c)]), jp.array([0., 0, 0, 1, 1]))
  law('orthogonals completes a unit vector to an orthonormal frame', lambda: (uvec('a'),), orth, fold=False, timeout=120)
  law('orthogonals is right handed: a x b == c, b x c == a', lambda: (uvec('a'),),
      lambda a: (lambda b, c: (jp.concatenate([jp.cross(a, b), jp.cross(b, c)]), jp.concatenate([c, a])))(*M.orthogonals(a)), timeout=120)
  return L


def euler_obligations(ck):
  """euler_to_quat is x-y'-z'' (degrees); quat_to_euler inverts it inside the chart |y| < 90 deg"""
  from brax import math as M
  ctx = core.Ctx(trig='tparam')
  v = core.reals('e', (3,))
  (q,), cj = core.run(ctx, lambda v: (M.euler_to_quat(v),), v)
  ck.traced('math.euler_to_quat', cj)
  # the three sin/cos arguments must be v_i * pi/360 (structural check on the coefficient)
  coeffs = {}
  for key, (s, c, arg) in ctx.trig.items():
    av = ctx._angle_of(arg)
    if av is None:
      ck.harness_error('euler_to_quat: unexpected trig argument ' + str(arg))
      return
    coeffs[av[0]] = float(av[1])
  ok = all(abs(coeffs.get('e_%d' % i, 0) - math.pi / 360) < 1e-15 for i in range(3))
  ob = Ob('euler_to_quat half-angle coefficient is pi/360', [], z3.BoolVal(ok), timeout=5)
  ob.meta['finding_key'] = 'euler/coeff'
  ck.add(ob)
  sc = {}
  for key, (s, c, arg) in ctx.trig.items():
    sc[ctx._angle_of(arg)[0]] = (s, c)
  (s1, c1), (s2, c2), (s3, c3) = sc['e_0'], sc['e_1'], sc['e_2']
  def qm(u, w):
    return [u[0] * w[0] - u[1] * w[1] - u[2] * w[2] - u[3] * w[3], u[0] * w[1] + u[1] * w[0] + u[2] * w[3] - u[3] * w[2],
            u[0] * w[2] - u[1] * w[3] + u[2] * w[0] + u[3] * w[1], u[0] * w[3] + u[1] * w[2] - u[2] * w[1] + u[3] * w[0]]
  ref = qm(qm([c1, s1, 0, 0], [c2, 0, s2, 0]), [c3, 0, 0, s3])
  fr = Fr()
  g = z3.And([fr.eq(lift(a), lift(b)) for a, b in zip(q, ref)])
  ck.add(Ob('euler_to_quat == qx(a1) qy(a2) qz(a3)', ctx.side, g, timeout=60))
  mref = qm(qm([c3, 0, 0, s3], [c2, 0, s2, 0]), [c1, s1, 0, 0])
  ck.add(Ob('twin/euler order reversed', ctx.side + [z3.Not(z3.And([fr.eq(lift(a), lift(b)) for a, b in zip(q, mref)]))], None, expect='sat', timeout=60))
  # inverse: quat_to_euler(q(v)) recovers the angles: identification at circle level
  ctx2 = core.Ctx()
  qin = np.array([lift(x) for x in q], dtype=object)
  (eu,), cj2 = core.run(ctx2, lambda q: (M.quat_to_euler(q),), qin)
  ck.traced('math.quat_to_euler', cj2)
  # eu cells are uninterpreted atan2 / asin applications; fetch their argument terms
  byvar = {v_.decl().name(): (nm, xs) for k, (v_, nm, xs) in ctx2.uf.items()}
  def args_of(cell):
    return byvar[cell.decl().name()]
  tpar = {nm: t for nm, t in ctx.tvars.items()}
  chart = []
  for nm, t in tpar.items():
    # |angle| < 90deg  <=>  |half angle| < 45deg  <=> |t = tan(half/2)| < tan(22.5deg) ; use 0.41 < 0.41421
    chart += [t > -F(41, 100), t < F(41, 100)]
  full = lambda s, c: (2 * s * c, c * c - s * s)   # sin, cos of the full angle from the half-angle pair
  goals = []
  for i, (s, c) in enumerate([(s1, c1), (s2, c2), (s3, c3)]):
    nm, xs = args_of(eu[i])
    sa, ca = full(s, c)
    if nm == 'atan2':
      Y, X = xs
      goals.append(('euler inverse angle %d: atan2 numerator identity' % i, fr.formula(Y * ca - X * sa == 0)))
      goals.append(('euler inverse angle %d: atan2 branch (positivity)' % i, fr.formula(X * ca + Y * sa > 0)))
    elif nm == 'asin':
      goals.append(('euler inverse angle %d: asin argument == sin' % i, fr.formula(xs[0] == sa)))
      goals.append(('euler inverse angle %d: asin branch (cos > 0)' % i, fr.formula(ca > 0)))
    else:
      ck.harness_error('quat_to_euler: unexpected application ' + nm)
  for n, g in goals:
    ck.add(Ob(n, ctx.side + ctx2.side + chart, g, timeout=120, core=('positivity' not in n)))
  ck.notes.append('quat_to_euler(euler_to_quat(v)) == v is decided by identification obligations on the atan2/asin arguments '
                  'inside the chart |angle_i| < 88.8 deg (t=tan(angle/4) in (-0.41,0.41)); clip(...,-1,1) inside the chart is the identity (obligation)')


def run(ck, a):
  thorough = ck.tier == 'thorough'
  ck.bounds = {'inputs': 'all real vectors / quaternions / inertias / masses; unit quaternions and unit vectors via rational '
                         'parametrisation (covers every unit quaternion except w=-1 resp. the south pole, a measure-zero set)',
               'outside': 'float round-off; quat_mul_ang (unused by brax, no law stated)'}
  ck.assumptions += ['reals for floats', 'PRNG inside from_to stubbed as arbitrary values in [0,1)',
                     'sqrt as constrained variable y>=0, y^2=a']
  allobs = []
  for lw in laws():
    if not lw['core'] and not thorough:
      continue
    ins = lw['inputs']()
    ctx = core.Ctx(fold=lw['fold'], assume=(lw['pre'](*ins) if lw['pre'] else []))
    ctx.lemma_timeout = 3000
    if lw['cands']:
      ctx.sqrt_candidates = lw['cands'](*ins)
    try:
      (lhs, rhs), cj = core.run(ctx, lw['fn'], *ins)
    except core.SXUnsupported as ex:
      ck.harness_error('%s: %s' % (lw['name'], ex))
      continue
    ck.traced('law: ' + lw['name'], cj)
    ck.stubs |= ctx.stubs
    pre = lw['pre'](*ins) if lw['pre'] else []
    fr = Fr.for_ctx(ctx)
    lhs0, rhs0 = lhs, rhs
    lhs, rhs = np.atleast_1d(lhs).reshape(-1), np.atleast_1d(rhs).reshape(-1)
    eqs = []
    for x, y in zip(lhs, rhs):
      if core.isc(x) and core.isc(y):
        eqs.append(bool(x == y))
      else:
        eqs.append(fr.eq(lift(x), lift(y)))
    side = [fr.formula(s_, _top=False) for s_ in ctx.side]
    pre = [fr.formula(p) for p in pre]
    if all(isinstance(e, bool) for e in eqs):
      goal = all(eqs)
    else:
      goal = z3.And([e if not isinstance(e, bool) else z3.BoolVal(e) for e in eqs])
    ob = Ob('law/' + lw['name'], side + pre, goal, timeout=lw['timeout'] * (3 if thorough else 1), core=lw['core'])
    ob.meta['law'] = lw['name']
    ck.add(ob)
    # definedness of every cleared denominator under the preconditions
    if lw['defined_pre']:
      # the law is stated where the code's own denominators are non-zero (e.g. det + 1e-10 != 0)
      ob.assume += [f_ != 0 for f_ in fr.factors()]
      ob.smt2 = None
      ck.notes.append('%s: stated under definedness of its %d denominators' % (lw['name'], len(fr.factors())))
    else:
      for f_ in fr.factors():
        ck.add(Ob('defined/' + lw['name'] + '/' + ' '.join(str(f_).split())[:40], side + pre, f_ != 0, timeout=30, core=lw['core']))
    # vacuity: preconditions + side satisfiable
    if pre or ctx.side:
      ck.add(Ob('twin/reach/' + lw['name'], side + pre, None, expect='sat', timeout=30))
    if lw['mutant'] is not None:
      ctxm = core.Ctx()
      (ml, mr), _ = core.run(ctxm, lw['mutant'], *ins)
      frm = Fr()
      meq = z3.And([frm.eq(lift(x), lift(y)) for x, y in zip(np.atleast_1d(ml).reshape(-1), np.atleast_1d(mr).reshape(-1))])
      ck.add(Ob('twin/mutant/' + lw['name'], [frm.formula(s) for s in ctxm.side] + [z3.Not(meq)], None, expect='sat', timeout=30))
    # translator validation on a sample of laws each run
    try:
      ck.validated += validate.validate(ctx, lw['fn'], ins, (lhs0, rhs0), n=3, seed=ck.seed,
                                        require=[p for p in (lw['pre'](*ins) if lw['pre'] else [])]) if not ctx.rand else 0
    except validate.ValidationError as ex:
      ck.harness_error('translator validation failed for %s: %s' % (lw['name'], ex))
  euler_obligations(ck)

  def replay(ob):
    # evaluate the real functions at the model in float64
    name = ob.meta.get('law')
    lw = [l for l in laws() if l['name'] == name]
    if not lw:
      return True, {'note': 'structural obligation', 'model': ob.model}
    lw = lw[0]
    ins = lw['inputs']()
    env = {}
    for k, v in (ob.model or {}).items():
      try:
        env[k] = float(F(v)) if '/' in v else float(v)
      except ValueError:
        pass
    ctx = core.Ctx()
    terms = [c for arr in ins for c in np.asarray(arr, dtype=object).reshape(-1)]
    for nm in core.free_vars([t for t in terms if not core.isc(t)]):
      env.setdefault(nm, 0.0)
    conc = [jp.asarray(np.asarray(core.evalf(ctx, np.asarray(arr, dtype=object), env), dtype=float)) for arr in ins]
    l, r = lw['fn'](*conc)
    l, r = np.asarray(l, dtype=float).reshape(-1), np.asarray(r, dtype=float).reshape(-1)
    bad = not np.allclose(l, r, rtol=1e-9, atol=1e-9)
    return bad, {'inputs': [np.asarray(c).tolist() for c in conc], 'lhs': l.tolist(), 'rhs': r.tolist()}
  ck.replayers['law/'] = replay
  ck.replayers['euler'] = lambda ob: (True, {'model': ob.model})
  ck.replayers['defined/'] = lambda ob: (True, {'model': ob.model, 'note': 'a denominator can vanish under the preconditions'})
  ck.discharge()
  ck.cross_check(n=3)


if __name__ == '__main__':
  report.main('C09', run)
