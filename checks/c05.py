"""C05 — physics does not depend on how the scene is represented.

Encoded: pipeline.init + pipeline.step of the spring, positional and generalized (exact mass-matrix inverse) pipelines on free-rooted generator
models.  Rigid transform g = (R, t): transformed inputs are built as terms (root pose / velocity per the free-joint convention, gravity rotated);
obligation: step(g.s) == g.step(s) componentwise, non-root joint coordinates unchanged.  t, the root position, slide coordinates, ALL velocities
and controls are symbolic; rotations (R, root orientation, hinge half-angles) are exact rational (Tier B).
Sibling order / disconnected components: two documents loaded by the real mjcf.loads; outputs must be the permuted / embedded outputs.
"""
import itertools
import math
import random
from fractions import Fraction as F

import jax
import jax.numpy as jp
import numpy as np
import z3

from checks.c01 import TS, half_point
from gen import models
from lib import report
from spec import kin
from sx import core, validate
from sx.core import lift
from sx.fr import Fr
from sx.solve import Ob

EXACT_INV = ['<numeric name="matrix_inv_iterations" data="0"/>']


def state_inputs(spec, rng, ctx, prefix=''):
  """Tier B q (cells); qd on a symbolic LINE through an exact rational point: qd = qd0 + lam * dir (lam symbolic real in [-2,2])"""
  q, qd = [], []
  lam = z3.Real(prefix + 'lam')
  def vel():
    return F(rng.randint(-10, 10), 10) + F(rng.randint(-3, 3), 3) * lam
  for b in spec['bodies']:
    for j in b['joints']:
      if j['type'] == 'free':
        q += [z3.Real('%sq%d' % (prefix, len(q) + i)) for i in range(3)] + [F(repr(float(x))) for x in rng.choice(models.QUATS)]
        qd += [vel() for i in range(6)]
      else:
        v = z3.Real('%sq%d' % (prefix, len(q)))
        if j['type'] == 'hinge':
          ctx.angle_points[v.decl().name()] = half_point(rng.choice([t for t in TS if abs(t) <= F(1, 3)]))
        q.append(v)
        qd.append(vel())
  return q, qd


def outputs(mod, pname):
  def f(s, q, qd, act):
    st = mod.init(s, q, qd)
    o = mod.step(s, st, act)
    return o.x.pos, o.x.rot, o.xd.vel, o.xd.ang, o.q, o.qd
  return f


def run(ck, a):
  from brax.generalized import pipeline as gp
  from brax.io import mjcf
  from brax.positional import pipeline as pp
  from brax.spring import pipeline as sp
  thorough = ck.tier == 'thorough'
  rng = random.Random(600 + ck.seed)
  pipes = [('spring', sp), ('positional', pp), ('generalized', gp)]
  ck.bounds = {'pipelines': [p for p, _ in pipes], 'models': 'free root + 1-2 hinge/slide links (rigid transform); 4-7 link trees (sibling order); pairs of <=2-link models (components)',
               'symbolic': 'translation t (3), root position (3), slide coordinates, and the velocity state along a symbolic line qd0 + lam*dir through an exact rational point (controls exact rational)', 'tier B': 'R from exact rational unit quaternions (non-axis-aligned included), root '
               'orientation and hinge half-angles at exact rational points', 'steps': 1, 'outside': 'float round-off; diverging trajectories do not arise in one step'}
  ck.assumptions += ['reals for floats', 'generalized pipeline with matrix_inv_iterations=0 (exact inverse, as the property requires)']
  replay = {}
  rots = [(0.6, 0, 0.8, 0), (0.5, 0.5, 0.5, 0.5), (0.1, 0.7, 0.7, 0.1), (0.2, 0.4, 0.4, 0.8)]
  model_words = [['h'], ['hh']] if not thorough else [['h'], ['hh'], ['h', 's'], ['hs'], ['h', 'h']]
  t = [z3.Real('t%d' % i) for i in range(3)]
  for wi, words in enumerate(model_words):
    spec = models.tree_model(rng, words, free_root=True, ortho=True, limits_p=1.0, actuators=1, joint_props=True)
    spec['custom'] = EXACT_INV
    xml = models.to_xml(spec)
    sys_ = mjcf.loads(xml)
    ex = models.exact_params(spec)
    keys = sorted(ex)
    grav = [F(repr(float(x))) for x in np.asarray(sys_.gravity)]
    for pname, mod in pipes:
      if pname == 'generalized' and (any('s' in w for w in words) or not thorough or words != ['h']):
        continue       # the mass matrix would depend on a symbolic slide coordinate (symbolic Cholesky): hinge-only models for this pipeline
      R = [F(repr(float(x))) for x in rots[(wi + len(pname)) % len(rots)]]
      ctx = core.Ctx(fold=any('s' in w for w in words))
      ctx.pair_cos_min = F(27, 50)
      ctx.lemma_timeout = 150
      q, qd = state_inputs(spec, rng, ctx)
      act = core.consts([F(rng.randint(-10, 10), 10) for _ in range(sys_.act_size())])
      # transformed inputs
      qg, qdg = list(q), list(qd)
      qg[0:3] = kin.vadd(kin.qrot(q[0:3], R), t)
      qg[3:7] = kin.qmul(R, q[3:7])
      qdg[0:3] = kin.qrot(qd[0:3], R)
      gg = kin.qrot(grav, R)
      pars = [core.consts(ex[kx]) for kx in keys]
      fo = outputs(mod, pname)
      def f(q, qd, act, gvec, *ps):
        s = sys_.tree_replace({kx: p for kx, p in zip(keys, ps)}).replace(gravity=gvec)
        return fo(s, q, qd, act)
      try:
        o1, cj = core.run(ctx, f, core.obj_array(q), core.obj_array(qd), act, core.consts(grav), *pars)
        o2, _ = core.run(ctx, f, core.obj_array(qg), core.obj_array(qdg), act, core.obj_array(gg), *pars)
      except (core.SXUnsupported, ZeroDivisionError, ValueError, AssertionError) as e_:
        ck.notes.append('rigid transform %s %s not encodable: %r' % (pname, words, e_))
        if pname != 'generalized':
          ck.harness_error('rigid transform %s %s: %r' % (pname, words, e_))
        continue
      ck.traced('%s.pipeline.init+step' % pname, cj)
      ck.log('traced rigid %s %s eqns=%d folds=%s' % (pname, words, core.n_eqns(cj.jaxpr), ctx.fold_stats))
      fr = Fr.for_ctx(ctx)
      side = [fr.formula(s_, _top=False) for s_ in ctx.side]
      (xp1, xr1, xv1, xa1, q1, qd1), (xp2, xr2, xv2, xa2, q2, qd2) = o1, o2
      nl = xp1.shape[0]
      tag = '%s/free+%s/R=%s' % (pname, '.'.join(words), rots[(wi + len(pname)) % len(rots)])
      replay[tag] = (xml, pname)
      E = lambda x, y: fr.formula(lift(x) == lift(y))
      for i in range(nl):
        gp_ = kin.vadd(kin.qrot(list(xp1[i]), R), t)
        gr = kin.qmul(R, list(xr1[i]))
        goals = [E(xp2[i, c], gp_[c]) for c in range(3)]
        goals.append(z3.Or(z3.And([E(xr2[i, c], gr[c]) for c in range(4)]), z3.And([E(xr2[i, c], core.s_neg(gr[c])) for c in range(4)])))
        gv, ga = kin.qrot(list(xv1[i]), R), kin.qrot(list(xa1[i]), R)
        goals += [E(xv2[i, c], gv[c]) for c in range(3)] + [E(xa2[i, c], ga[c]) for c in range(3)]
        ck.add(Ob('rigid-transform/%s/link%d' % (tag, i), side, z3.And(goals), timeout=120 if pname != 'positional' else 30, core=(pname != 'positional'),
                  meta={'tag': tag, 'extended_witness': tag if pname == 'positional' else None}))
      goals = [E(q2[k], q1[k]) for k in range(7, len(q))] + [E(qd2[k], qd1[k]) for k in range(6, len(qd))] + [E(qd2[k], qd1[k]) for k in range(3, 6)]
      cong = [fr.formula(c_) for c_ in ctx.congruence()]
      ck.add(Ob('rigid-transform/%s/non-root joint coordinates unchanged' % tag, side + cong, z3.And(goals) if goals else True, timeout=40, core=False, kind='lemma', meta={'tag': tag}))
      if wi == 0 and pname == 'spring':
        ck.add(Ob('twin/reach/' + tag, side, None, expect='sat', timeout=60))
        ck.add(Ob('twin/untransformed-output/' + tag, side + [z3.Not(z3.And([E(xp2[0, c], xp1[0, c]) for c in range(3)]))], None, expect='sat', timeout=60))
        ck.samples.append({'model': tag, 'xml': xml})

  # ---- sibling order: permuting sibling bodies only permutes the per-link results
  def sibling_docs(counts):
    """free torso with len(counts) children, child i having counts[i] hinge grandchildren"""
    words, parents, names = [], [], []
    for ci, c in enumerate(counts):
      words.append('h')
      parents.append(0)
      me = len(words)
      for _ in range(c):
        words.append('h')
        parents.append(me)
    return words, parents
  for counts in ([(2, 0, 1)] if not thorough else [(2, 0, 1), (1, 1, 0), (0, 2)]):
    words, parents = sibling_docs(counts)
    spec = models.tree_model(random.Random(7), words, parents=parents, free_root=True, ortho=True, limits_p=1.0, actuators=0, joint_props=False)
    spec['custom'] = EXACT_INV
    # permuted document: reverse the order of the torso's children (with their subtrees)
    bodies = spec['bodies']
    kids = [i for i, b in enumerate(bodies) if b['parent'] == 0]
    def subtree(i):
      out = [i]
      for j, b in enumerate(bodies):
        if b['parent'] == i:
          out += subtree(j)
      return out
    order = [0]
    for kdx in reversed(kids):
      order += subtree(kdx)
    newidx = {old: new for new, old in enumerate(order)}
    spec2 = dict(spec)
    spec2['bodies'] = []
    for old in order:
      b = dict(bodies[old])
      b['parent'] = -1 if b['parent'] == -1 else newidx[b['parent']]
      spec2['bodies'].append(b)
    xml1, xml2 = models.to_xml(spec), models.to_xml(spec2)
    s1, s2 = mjcf.loads(xml1), mjcf.loads(xml2)
    ex1, ex2 = models.exact_params(spec), models.exact_params(spec2)
    keys = sorted(ex1)
    for pname, mod in pipes[:2] if not thorough else pipes:
      ctx = core.Ctx(fold=False)
      ctx.pair_cos_min = F(27, 50)
      ctx.lemma_timeout = 150
      q, qd = state_inputs(spec, random.Random(11), ctx)
      # permuted state: link order changes; q layout follows link order
      def layout(sp_):
        offs, o, d = [], 0, 0
        for b in sp_['bodies']:
          nq = sum(7 if j['type'] == 'free' else 1 for j in b['joints'])
          nd = sum(6 if j['type'] == 'free' else 1 for j in b['joints'])
          offs.append((o, nq, d, nd))
          o += nq
          d += nd
        return offs
      l1 = layout(spec)
      q2_, qd2_ = [], []
      for old in order:
        o, nq, d, nd = l1[old]
        q2_ += q[o:o + nq]
        qd2_ += qd[d:d + nd]
      fo = outputs(mod, pname)
      def fa(q, qd, *ps):
        s = s1.tree_replace({kx: p for kx, p in zip(keys, ps)})
        return fo(s, q, qd, jp.zeros(s.act_size()))
      def fb(q, qd, *ps):
        s = s2.tree_replace({kx: p for kx, p in zip(keys, ps)})
        return fo(s, q, qd, jp.zeros(s.act_size()))
      try:
        o1, cj = core.run(ctx, fa, core.obj_array(q), core.obj_array(qd), *[core.consts(ex1[kx]) for kx in keys])
        o2, _ = core.run(ctx, fb, core.obj_array(q2_), core.obj_array(qd2_), *[core.consts(ex2[kx]) for kx in keys])
      except (core.SXUnsupported, ZeroDivisionError, ValueError, AssertionError) as e_:
        ck.harness_error('sibling order %s %s: %r' % (pname, counts, e_))
        continue
      ck.traced('%s.pipeline.init+step (sibling order)' % pname, cj)
      ck.log('traced siblings %s folds=%s' % (pname, ctx.fold_stats))
      fr = Fr.for_ctx(ctx)
      side = [fr.formula(s_, _top=False) for s_ in ctx.side]
      E = lambda x, y: fr.formula(lift(x) == lift(y))
      tag = 'siblings/%s/children=%s' % (pname, counts)
      replay[tag] = (xml1, pname)
      for new, old in enumerate(order):
        goals = [E(o2[0][new, c], o1[0][old, c]) for c in range(3)] + [E(o2[2][new, c], o1[2][old, c]) for c in range(3)] + [E(o2[3][new, c], o1[3][old, c]) for c in range(3)]
        goals.append(z3.Or(z3.And([E(o2[1][new, c], o1[1][old, c]) for c in range(4)]), z3.And([E(o2[1][new, c], core.s_neg(o1[1][old, c])) for c in range(4)])))
        if pname == 'positional':
          # positional: decided on the additive skeleton (large non-linear chunks -> fresh variables; unsat of the generalisation is sound).  The links
          # below the torso compute structurally identical chunks in both documents; the torso SUMS its children's corrections in document order and its
          # skeleton query is beyond nlsat -> extended, backed by the concrete witness search on the real code
          from sx.abstract import Abstractor
          ab = Abstractor(keep=30)
          raw = [lift(o2[0][new, c]) == lift(o1[0][old, c]) for c in range(3)] + [lift(o2[2][new, c]) == lift(o1[2][old, c]) for c in range(3)] + [lift(o2[3][new, c]) == lift(o1[3][old, c]) for c in range(3)]
          raw += [lift(o2[1][new, c]) == lift(o1[1][old, c]) for c in range(4)]
          torso = bodies[old]['parent'] == -1
          ck.add(Ob('sibling-order/%s/link%d' % (tag, old), [], z3.And([ab.formula(x) for x in raw]), timeout=40 if torso else 90, core=not torso,
                    meta={'tag': tag, 'xml2': xml2, 'order': list(order), 'abstract': True, 'extended_witness': tag if torso else None}))
          continue
        ck.add(Ob('sibling-order/%s/link%d' % (tag, old), side, z3.And(goals), timeout=120, meta={'tag': tag, 'xml2': xml2, 'order': list(order)}))

  # ---- disconnected components evolve as each would alone
  specA = models.tree_model(random.Random(21), ['h'], free_root=True, ortho=True, limits_p=1.0)
  specB = models.tree_model(random.Random(22), ['h'], free_root=True, ortho=True, limits_p=1.0)
  merged = {'bodies': [], 'actuators': [], 'custom': EXACT_INV}
  for sp_, pre in ((specA, 'A'), (specB, 'B')):
    base = len(merged['bodies'])
    for b in sp_['bodies']:
      b2 = dict(b)
      b2['name'] = pre + b['name']
      b2['parent'] = -1 if b['parent'] == -1 else b['parent'] + base
      b2['joints'] = [dict(j, name=pre + j['name']) for j in b['joints']]
      merged['bodies'].append(b2)
  specA['custom'] = EXACT_INV
  xm, xa = models.to_xml(merged), models.to_xml(specA)
  sm, sa = mjcf.loads(xm), mjcf.loads(xa)
  exm, exa = models.exact_params(merged), models.exact_params(specA)
  keys = sorted(exm)
  for pname, mod in pipes[:2] if not thorough else pipes:
    ctx = core.Ctx(fold=False)
    ctx.pair_cos_min = F(27, 50)
    ctx.lemma_timeout = 150
    qm, qdm = state_inputs(merged, random.Random(31), ctx)
    nqa = sum(7 if j['type'] == 'free' else 1 for b in specA['bodies'] for j in b['joints'])
    nda = sum(6 if j['type'] == 'free' else 1 for b in specA['bodies'] for j in b['joints'])
    fo = outputs(mod, pname)
    def fm(q, qd, *ps):
      s = sm.tree_replace({kx: p for kx, p in zip(keys, ps)})
      return fo(s, q, qd, jp.zeros(s.act_size()))
    def fa2(q, qd, *ps):
      s = sa.tree_replace({kx: p for kx, p in zip(keys, ps)})
      return fo(s, q, qd, jp.zeros(s.act_size()))
    try:
      om, cj = core.run(ctx, fm, core.obj_array(qm), core.obj_array(qdm), *[core.consts(exm[kx]) for kx in keys])
      oa, _ = core.run(ctx, fa2, core.obj_array(qm[:nqa]), core.obj_array(qdm[:nda]), *[core.consts(exa[kx]) for kx in keys])
    except (core.SXUnsupported, ZeroDivisionError, ValueError, AssertionError) as e_:
      ck.harness_error('components %s: %r' % (pname, e_))
      continue
    ck.traced('%s.pipeline.init+step (merged components)' % pname, cj)
    fr = Fr.for_ctx(ctx)
    side = [fr.formula(s_, _top=False) for s_ in ctx.side]
    E = lambda x, y: fr.formula(lift(x) == lift(y))
    nla = len(specA['bodies'])
    goals = []
    for i in range(nla):
      goals += [E(om[0][i, c], oa[0][i, c]) for c in range(3)] + [E(om[2][i, c], oa[2][i, c]) for c in range(3)] + [E(om[3][i, c], oa[3][i, c]) for c in range(3)]
    goals += [E(om[4][k], oa[4][k]) for k in range(nqa) if not (3 <= k < 7)] + [E(om[5][k], oa[5][k]) for k in range(nda)]
    tag = 'components/%s' % pname
    replay[tag] = (xm, pname)
    ck.add(Ob('disconnected-components/%s: part A evolves as alone' % pname, side, z3.And(goals), timeout=120, meta={'tag': tag}))

  def fv(s):
    s = str(s).rstrip('?')
    return float(F(s)) if '/' in s else float(s)

  def rep(ob):
    tag = ob.meta['tag']
    xml, pname = replay[tag]
    mod = dict(pipes)[pname]
    s = mjcf.loads(xml)
    r = np.random.RandomState(3)
    log = []
    for trial in range(6):
      q = np.array(s.init_q)
      off = 0
      for t_ in s.link_types:
        if t_ == 'f':
          q[off:off + 3] += r.uniform(-0.5, 0.5, 3)
          v = r.randn(4)
          q[off + 3:off + 7] = v / np.linalg.norm(v)
          off += 7
        else:
          q[off:off + int(t_)] = r.uniform(-0.6, 0.6, int(t_))
          off += int(t_)
      qd = r.uniform(-1, 1, s.qd_size())
      act = jp.array(r.uniform(-1, 1, s.act_size()))
      if tag.startswith(('spring', 'positional', 'generalized')):
        Rq = r.randn(4)
        Rq /= np.linalg.norm(Rq)
        tt = r.uniform(-3, 3, 3)
        from checks.c13 import qmat
        Rm = qmat(Rq)
        qg, qdg = q.copy(), qd.copy()
        qg[0:3] = Rm @ q[0:3] + tt
        w1, w2 = Rq, q[3:7]
        qg[3:7] = np.array([w1[0] * w2[0] - w1[1:] @ w2[1:], *(w1[0] * w2[1:] + w2[0] * w1[1:] + np.cross(w1[1:], w2[1:]))])
        qdg[0:3] = Rm @ qd[0:3]
        s_g = s.replace(gravity=jp.array(Rm @ np.asarray(s.gravity)))
        o1 = mod.step(s, mod.init(s, jp.array(q), jp.array(qd)), act)
        o2 = mod.step(s_g, mod.init(s_g, jp.array(qg), jp.array(qdg)), act)
        e1 = np.abs(np.asarray(o2.x.pos) - (np.asarray(o1.x.pos) @ Rm.T + tt)).max()
        e2 = np.abs(np.asarray(o2.xd.vel) - np.asarray(o1.xd.vel) @ Rm.T).max()
        e3 = np.abs(np.asarray(o2.q)[7:] - np.asarray(o1.q)[7:]).max() if len(q) > 7 else 0.0
        if max(e1, e2, e3) > 1e-7:
          return True, {'xml': xml, 'pipeline': pname, 'q': q.tolist(), 'qd': qd.tolist(), 'act': np.asarray(act).tolist(), 'R_quat': Rq.tolist(), 't': tt.tolist(),
                        'errors': {'pos': float(e1), 'vel': float(e2), 'q': float(e3)}}
      elif 'order' in ob.meta:
        s2 = mjcf.loads(ob.meta['xml2'])
        order = ob.meta['order']
        # permute the state: link `old` of document 1 is link `new` of document 2
        def layout(sy):
          offs, o_, d_ = [], 0, 0
          for t2 in sy.link_types:
            nq_, nd_ = (7, 6) if t2 == 'f' else (int(t2), int(t2))
            offs.append((o_, nq_, d_, nd_))
            o_ += nq_
            d_ += nd_
          return offs
        l1 = layout(s)
        q2 = np.concatenate([q[l1[old][0]:l1[old][0] + l1[old][1]] for old in order])
        qd2 = np.concatenate([qd[l1[old][2]:l1[old][2] + l1[old][3]] for old in order])
        o1 = mod.step(s, mod.init(s, jp.array(q), jp.array(qd)), jp.zeros(s.act_size()))
        o2 = mod.step(s2, mod.init(s2, jp.array(q2), jp.array(qd2)), jp.zeros(s2.act_size()))
        err = max(float(jp.abs(o2.x.pos[new] - o1.x.pos[old]).max()) for new, old in enumerate(order))
        if err > 1e-8:
          return True, {'xml': xml, 'xml_permuted': ob.meta['xml2'], 'pipeline': pname, 'q': q.tolist(), 'qd': qd.tolist(), 'max_position_difference': err}
      else:
        return True, {'xml': xml, 'pipeline': pname, 'model': ob.model, 'note': 'two-document identity violated (solver model above)'}
    return False, {'why': 'no violating state found by the witness search'}
  for p in ('rigid-transform', 'sibling-order', 'disconnected'):
    ck.replayers[p] = rep
  ck.discharge()
  ck.cross_check(n=1, timeout=10)


if __name__ == '__main__':
  report.main('C05', run)
